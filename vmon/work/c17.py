"""C17 - cached computations are indistinguishable from fresh ones.

Monitors (all attached to the real objects, they record and return)
* ``Cache.__call__`` (looked up on the type, so every decorated function is covered, also
  the Cython ``downsample_grid``): the call is shadow-executed through ``self.func`` on
  deep-copied arguments; outcome (value or exception type) must be equal.  A digest of every
  value is taken when it enters the cache and re-checked whenever the cache hands it out
  again and in a sweep at the end of every case (aliasing / mutation of cached values).
* ``dclab.util.hashfile`` (all ``from .. import`` sites rebound): result must equal an
  independent digest of the file's current bytes and the undecorated function.
* ``LazyContourList.__getitem__``: equal to ``get_contour(self.masks[idx])``.
* ``H5ScalarEvent/ChildScalar/BasinProxyFeature.__array__``: equal to a fresh read
  (HDF5 dataset / parent[filter] / basin[map]).
* workload-level: every value read through the dataset interface is compared with the
  generated data; results of ds.get_kde_*/get_downsampled_scatter with a stored copy of the
  first result; in between, arrays obtained through the dataset interface are modified.
"""
import copy
import functools
import hashlib
import inspect
import os
import pathlib
import shutil

import numpy as np

PROP = "C17"
LEVEL = "exploration"
RULE = ("memo: per case a pool of ~280 call specs over array families built to collide (same "
        "bytes as float64/int64/uint64/big-endian/float32/2-d, strided/reversed/Fortran views, "
        "argument splits of one byte stream, bins 55 vs [5, 5], positional vs keyword) for "
        "kde_gauss/kde_histogram/kde_multivariate (public wrapper and inner memo object), "
        "downsample_grid and two synthetic decorated echo functions; a sequence of 150-500 "
        "draws (uniform + recent + far-back re-draws) with in-place changes of pool arrays; "
        "non-trivial = sequence with >= 1 hit after an eviction and >= 1 call whose "
        "undelimited key material equals that of a cached call with different typed arguments; "
        "distinct by (kind, case index, sequence). feat: generated .rtdc file opened as HDF5, "
        "child, grandchild, mapped and same-mapping basin; 60-150 reads in 10 access forms "
        "interleaved with writes into the returned arrays, contour accesses (capacity 3) and "
        "KDE/downsampling through the dataset; non-trivial = >= 1 write through an array that "
        "came from the dataset interface followed by a read of the same feature. hash: 60-200 "
        "hashfile calls over 2-4 files with rewrites; non-trivial = >= 1 rewrite between two "
        "calls with the same arguments. contour: LazyContourList with capacity 1..5/None over "
        "mask stacks (ndarray, h5py dataset, list); non-trivial = >= 1 hit after an eviction. "
        "exh: every argument tuple of length <= 2 (thorough: <= 3) over an alphabet of 30 "
        "look-alike values (1, '1', 1.0, True, [1, 2], [12], (1, 2), '12', nested lists, empty "
        "arrays of different dtype, one-element arrays viewed as other dtypes/shapes) passed to "
        "two decorated echo functions with the capacity raised so that all calls stay cached")
LEVEL_TEXT = ("Held on the observed executions: every monitored memoised call returned what a "
              "fresh execution of the undecorated function returned on copies of the same "
              "arguments, no cached value changed between insertion and hand-out, hashfile "
              "agreed with an independent digest of the current bytes across rewrites, contour "
              "lists agreed with fresh contours, and values read through the dataset interface "
              "were unaffected by writes into earlier results. Exploration of call histories, "
              "not a proof.")
LEVEL_NOTE = ("trusted: numpy/h5py/hashlib, copy.deepcopy of arguments, determinism of the "
              "undecorated functions (checked implicitly: every cache miss is compared with a "
              "second execution). Not judged: file rewrites that restore size and mtime; direct "
              "mutation of values returned by the raw memoised functions; blocksize < 1, "
              "count < 0 or non-integer hashfile arguments; two decorated functions with equal "
              "name, docstring and file (documented limitation of Cache); object arrays.")
TECHNIQUE = ("runtime monitoring by shadow execution (memo wrapper vs. undecorated function on "
             "copied arguments), insertion-time digests re-checked at every hit, independent "
             "digest oracle for file hashes, generated-data oracle for dataset reads")
ASSUMPTIONS = [
    "a fresh computation is the undecorated function (Cache.func / hashfile.__wrapped__ / "
    "get_contour) executed on deep copies of the arguments in the same process",
    "the capacity of LazyContourList is set to 3 (default argument patched) in the dataset "
    "workload so that eviction is reachable with tens of events",
    "file modifications that leave size and mtime_ns unchanged are outside the documented key "
    "and are skipped (counted as skipped_dc_same_stat)",
]
MIN_EVALS = {"memo_equals_fresh": 10000, "memo_unchanged": 3000, "hashfile_equals_md5": 2000,
             "hashfile_equals_fresh": 2000, "contour_equals_fresh": 3000,
             "feat_contour_equals_model": 300, "scalar_array_equals_fresh": 3000,
             "feat_read_equals_model": 2000, "ds_call_repeatable": 300}


def min_evals(tier):
    f = 1 if tier == "quick" else 20
    return {k: v * f for k, v in MIN_EVALS.items()}
WATCHDOG_S = {"quick": 400, "thorough": 3000}

D09 = "cache-key-is-undelimited-bytes"
D13 = "scalar-feature-cache-handed-out-writeable"
D22 = "hashfile-positional-arguments-typeerror"
F_CONTIG = "cache-key-requires-contiguous-array"
F_FNAME = "hashfile-fname-keyword-typeerror"
F_CONTOUR = "lazy-contour-cache-handed-out-writeable"


def plan(tier, seed):
    if tier == "quick":
        n = {"memo": 48, "feat": 64, "hash": 64, "contour": 64}
        k = {"memo": 16, "feat": 8, "hash": 4, "contour": 4}
    else:
        n = {"memo": 1280, "feat": 2048, "hash": 2048, "contour": 2048}
        k = {"memo": 64, "feat": 32, "hash": 16, "contour": 16}
    shards = []
    for kind in ("memo", "feat", "hash", "contour"):
        per = n[kind] // k[kind]
        for i in range(k[kind]):
            shards.append({"kind": kind, "cases": {"start": i * per, "stop": (i + 1) * per}})
    # exhaustive sub-space: every argument tuple up to length 2 (thorough: 3) over a fixed
    # alphabet of look-alike values, all held in the cache at the same time
    if tier == "quick":
        shards.append({"kind": "exh", "depth": 2, "cases": [0]})
    else:
        na = len(ECHO_VALUES) + N_EXH_ARRAYS
        for first in range(na):
            shards.append({"kind": "exh", "depth": 3, "cases": [first]})
    return shards


def exhaustive(tier):
    return False      # only the "exh" sub-space is enumerated completely


# =========================================================================== state
class S:
    ctx = None
    depth = 0            # > 0 while the memo monitor runs its own calls
    spec = None          # description of the workload call in flight (witnesses)
    model = None         # UndelimitedFifoModel
    ins = {}             # real cache key -> digest at insertion
    case = None          # per-case counters
    reg = {}             # id(feature object) -> (object, AliasArrayModel)
    creg = {}            # id(LazyContourList) -> (object, ContourDequeModel)
    chandles = []        # model arrays handed out by the contour model since last reset
    hash_seen = {}       # (path, mtime_ns, size) -> content sha1
    in_array = 0


def _new_case():
    S.case = {"hits": 0, "misses": 0, "evictions": 0, "hits_after_eviction": 0,
              "collisions": 0, "key_exc": 0}


def _short(obj):
    from vmon.ctx import jsonable
    return jsonable(obj)


def _call(fn, *a, **kw):
    try:
        return ("ok", fn(*a, **kw))
    except Exception as exc:       # noqa: BLE001 - exceptions are outcomes here
        return ("exc", exc)


def _call_base(fn, *a, **kw):
    """Like _call, also for the BaseException subclass used by the contour code."""
    try:
        return ("ok", fn(*a, **kw))
    except (KeyboardInterrupt, SystemExit):
        raise
    except BaseException as exc:   # noqa: BLE001
        return ("exc", exc)


def _ret(outcome):
    if outcome[0] == "ok":
        return outcome[1]
    raise outcome[1]


# =========================================================================== memo monitor
def _make_cache_call(orig):
    def __call__(self, *args, **kwargs):
        ctx = S.ctx
        if ctx is None or S.depth:
            return orig(self, *args, **kwargs)
        S.depth += 1
        try:
            try:
                snap = copy.deepcopy((args, kwargs))
            except Exception:
                ctx.count("memo_skipped_uncopyable_arguments")
                return orig(self, *args, **kwargs)
            from dclab.cached import Cache
            from vmon.model.c17_cache import key_exception
            keys_before = list(Cache._keys)
            try:
                kexc = key_exception(args, kwargs)    # layout of the live arguments
            except Exception:
                kexc = None
            real = _call(orig, self, *args, **kwargs)
            try:
                _judge_memo(ctx, self, snap, (args, kwargs), keys_before, real, kexc)
            except Exception as exc:
                ctx.error("memo monitor", exc)
            return _ret(real)
        finally:
            S.depth -= 1
    return __call__


def _make_clear_cache(orig):
    def clear_cache():
        S.ins = {}
        if S.model is not None:
            S.model.clear()
        if S.ctx is not None:
            S.ctx.count("memo_cache_cleared")
        return orig()
    return clear_cache


def _judge_memo(ctx, cobj, snap, live, keys_before, real, kexc):
    from dclab.cached import Cache
    from vmon.model import c17_cache as M
    fn = cobj.func
    name = fn.__name__
    ident = (fn.__name__, fn.__doc__, fn.__code__.co_filename)
    sargs, skw = snap
    kb = set(keys_before)
    keys_after = list(Cache._keys)
    ka = set(keys_after)
    new = [k for k in keys_after if k not in kb]
    gone = [k for k in keys_before if k not in ka]
    ctx.count(f"memo_calls[{name}]")
    cs = S.case
    # -- the fresh computation on the copied arguments
    fresh = _call(fn, *sargs, **skw)
    if M.vdigest(list(live[0]) + [live[1]]) != M.vdigest(list(sargs) + [skw]):
        ctx.count("memo_arguments_modified_by_call")
    # -- bookkeeping of the real store
    hit_key = None
    if real[0] == "ok":
        if new:
            S.ins[new[0]] = M.vdigest(real[1])
            ctx.count("memo_misses")
            cs["misses"] += 1
            for k in gone:
                S.ins.pop(k, None)
            if gone:
                ctx.count("memo_evictions", len(gone))
                cs["evictions"] += len(gone)
        else:
            ctx.count("memo_hits")
            cs["hits"] += 1
            if cs["evictions"]:
                ctx.count("memo_hits_after_eviction")
                cs["hits_after_eviction"] += 1
            for k, v in Cache._cache.items():
                if v is real[1]:
                    hit_key = k
                    break
            if hit_key is None:
                ctx.count("memo_hit_not_identical_to_stored_object")
            elif hit_key not in S.ins:
                ctx.count("memo_hit_on_entry_inserted_unmonitored")
            else:
                dnow = M.vdigest(real[1])
                ctx.check("memo_unchanged", dnow == S.ins[hit_key],
                          lambda: {"function": name, "spec": S.spec,
                                   "value_now": _short(real[1])},
                          message=f"value cached for {name} changed between insertion and "
                                  f"hand-out")
        ctx.count(f"memo_cache_size[{min(len(Cache._cache) // 25 * 25, 100)}+]")
    else:
        ctx.count("memo_calls_raising")
    # -- defect models (tagging only)
    state = rec = stream = typed = None
    if kexc is None:
        stream = M.undelimited_stream(ident, sargs, skw)
        typed = M.typed_key(ident, sargs, skw)
        state, rec = S.model.predict(stream, typed)
        ctx.count(f"memo_model_{state}")
        if state == "collision":
            cs["collisions"] += 1
    else:
        ctx.count("memo_model_key_exception")
        cs["key_exc"] += 1
    ok = M.outcome_equal(real, fresh)
    finding = None
    if not ok:
        if kexc is not None:
            if real[0] == "exc" and type(real[1]) is kexc and \
                    not (fresh[0] == "exc" and type(fresh[1]) is kexc):
                finding = F_CONTIG
        elif state == "collision" and real[0] == "ok" and M.vdigest(real[1]) == rec["digest"]:
            finding = D09
    elif state == "collision":
        ctx.count("memo_collision_with_equal_result")
    ctx.check("memo_equals_fresh", ok,
              lambda: {"function": name, "spec": S.spec,
                       "args": _short(list(sargs)), "kwargs": _short(skw),
                       "memoised": _short(M.describe_outcome(real)),
                       "fresh": _short(M.describe_outcome(fresh)),
                       "model_state": state, "cache_hit": not new,
                       "entry_inserted_by": rec["spec"] if rec else None},
              finding=finding,
              message=f"{name}: memoised call {_brief(real)} but a fresh execution on the same "
                      f"arguments {_brief(fresh)} (model: {state or 'key exception'}; "
                      f"inserted by {rec['spec'] if rec else None}; this call {S.spec})")
    if kexc is None:
        S.model.commit(stream, typed, fresh, spec=S.spec)


def _brief(o):
    if o[0] == "exc":
        return f"raised {o[1]!r}"[:160]
    v = o[1]
    if isinstance(v, np.ndarray):
        return f"returned {v.dtype}{list(v.shape)} {np.asarray(v).ravel()[:3].tolist()}"
    if isinstance(v, tuple):
        return "returned (" + ", ".join(_brief(("ok", x))[9:] for x in v) + ")"
    return f"returned {v!r}"[:160]


def sweep_cache(ctx):
    """End-of-case check: every stored value still has its insertion digest."""
    from dclab.cached import Cache
    from vmon.model import c17_cache as M
    for k, v in list(Cache._cache.items()):
        d = S.ins.get(k)
        if d is None:
            continue
        ctx.check("memo_unchanged", M.vdigest(v) == d,
                  lambda: {"key": k, "value_now": _short(v), "where": "end-of-case sweep"},
                  message="a cached value changed after insertion (end-of-case sweep)")


# =========================================================================== hashfile monitor
def _hf_signature(fname, blocksize=65536, count=0, constructor=hashlib.md5,
                  hasher_class=None):
    """The documented signature of dclab.util.hashfile (binding only)."""


_HF_SIG = inspect.signature(_hf_signature)


def _make_hashfile(orig):
    undecorated = getattr(orig, "__wrapped__", None)

    @functools.wraps(orig)
    def hashfile(*args, **kwargs):
        ctx = S.ctx
        if ctx is None:
            return orig(*args, **kwargs)
        try:
            ci0 = orig.cache_info()
        except Exception:
            ci0 = None
        real = _call(orig, *args, **kwargs)
        try:
            if ci0 is not None:
                ci1 = orig.cache_info()
                ctx.count("hashfile_lru_hits", ci1.hits - ci0.hits)
                ctx.count("hashfile_lru_misses", ci1.misses - ci0.misses)
            _judge_hashfile(ctx, undecorated, args, kwargs, real)
        except Exception as exc:
            ctx.error("hashfile monitor", exc)
        return _ret(real)
    return hashfile


def _judge_hashfile(ctx, undecorated, args, kwargs, real):
    from vmon.model import c17_cache as M
    ctx.count("hashfile_calls")
    desc = {"args": [repr(a)[:80] for a in args],
            "kwargs": {k: repr(v)[:80] for k, v in kwargs.items()}, "spec": S.spec}
    try:
        ba = _HF_SIG.bind(*args, **kwargs)
        ba.apply_defaults()
        p = ba.arguments
    except TypeError:
        # not a call of the documented signature: both must refuse it
        ctx.check("hashfile_equals_md5", real[0] == "exc" and isinstance(real[1], TypeError),
                  dict(desc, got=_short(M.describe_outcome(real))),
                  message="call outside the signature of hashfile did not raise TypeError")
        return
    blocksize, count = p["blocksize"], p["count"]
    if not (type(blocksize) is int and type(count) is int and blocksize >= 1 and count >= 0):
        ctx.count("skipped_dc_hashfile_argument_domain")
        return
    ctor = p["hasher_class"] if p["hasher_class"] is not None else p["constructor"]
    try:
        algo = ctor().name
    except Exception:
        ctx.count("skipped_dc_hashfile_constructor")
        return
    try:
        path = pathlib.Path(p["fname"])
        with open(path, "rb") as fd:
            data = fd.read()
        st = os.stat(path)
        expected = ("ok", M.hashfile_expected(data, blocksize, count, algo))
        exists = True
    except Exception as exc:
        expected = ("exc", exc)
        exists = False
        data = None
    if exists:
        skey = (str(path.resolve()), st.st_mtime_ns, st.st_size)
        sha = hashlib.sha1(data).hexdigest()
        first = S.hash_seen.setdefault(skey, sha)
        if first != sha:
            ctx.count("skipped_dc_same_stat")
            return
    n_extra = max(len(args) - 1, 0)
    finding = None
    ok = M.outcome_equal(real, expected)
    if not ok and real[0] == "exc" and isinstance(real[1], TypeError) and exists:
        if M.hashfile_positional_typeerror(n_extra, exists) is TypeError:
            finding = D22
    if not ok and real[0] == "exc" and isinstance(real[1], TypeError) and finding is None \
            and M.hashfile_fname_keyword_typeerror(len(args), list(kwargs)) is TypeError:
        # the wrapper's first parameter is called `path`, the function's `fname`
        finding = F_FNAME
    ctx.check("hashfile_equals_md5", ok,
              lambda: dict(desc, memoised=_short(M.describe_outcome(real)),
                           expected=_short(M.describe_outcome(expected)),
                           size=None if data is None else len(data)),
              finding=finding,
              message=f"hashfile{tuple(desc['args'])}{desc['kwargs']} {_brief(real)}, "
                      f"independent digest of the current bytes: {_brief(expected)}")
    if undecorated is not None:
        fresh = _call(undecorated, *args, **kwargs)
        ctx.check("hashfile_equals_fresh", M.outcome_equal(real, fresh),
                  lambda: dict(desc, memoised=_short(M.describe_outcome(real)),
                               fresh=_short(M.describe_outcome(fresh))),
                  finding=finding,
                  message=f"hashfile{tuple(desc['args'])}{desc['kwargs']} {_brief(real)}, "
                          f"undecorated function {_brief(fresh)}")
        if not M.outcome_equal(fresh, expected):
            ctx.count("hashfile_undecorated_differs_from_independent_digest")


# =========================================================================== contour monitor
def _make_contour_getitem(orig):
    def __getitem__(self, idx):
        ctx = S.ctx
        if ctx is None:
            return orig(self, idx)
        import numbers
        is_int = isinstance(idx, numbers.Integral)
        was_cached = None
        n_before = 0
        if is_int:
            try:
                was_cached = idx in self.indices
                n_before = len(self.indices)
            except Exception:
                was_cached = None
        real = _call_base(orig, self, idx)
        try:
            _judge_contour(ctx, self, idx, is_int, was_cached, n_before, real)
        except Exception as exc:
            ctx.error("contour monitor", exc)
        return _ret(real)
    return __getitem__


def _judge_contour(ctx, lcl, idx, is_int, was_cached, n_before, real):
    from dclab.features.contour import get_contour
    from vmon.model import c17_cache as M
    if is_int:
        fresh = _call_base(lambda: get_contour(lcl.masks[idx]))
        ctx.count("contour_hits" if was_cached else "contour_misses")
        ml = lcl.contours.maxlen
        ctx.count(f"contour_capacity[{ml}]")
        if S.case is not None:
            if ml is not None and n_before == ml and real[0] == "ok":
                # the deques are full: this access (hit or miss) pushes the oldest entry out
                S.case["evictions"] += 1
                ctx.count("contour_evicting_accesses")
            if was_cached and S.case["evictions"]:
                S.case["hits_after_eviction"] += 1
                ctx.count("contour_hits_after_eviction")
    else:
        def all_fresh():
            return [get_contour(lcl.masks[int(i)]) for i in np.arange(len(lcl.masks))[idx]]
        fresh = _call_base(all_fresh)
        ctx.count("contour_slice_accesses")
    ok = M.outcome_equal(real, fresh)
    finding = None
    entry = S.creg.get(id(lcl))
    if is_int and entry is not None:
        handle = entry[1].get(idx)
        S.chandles.append(handle)
        if not ok and real[0] == "ok" and fresh[0] == "ok" and M.same_value(real[1], handle):
            finding = F_CONTOUR
    elif not is_int and entry is not None and not ok and real[0] == "ok":
        # the per-index accesses of this slice were judged (and tagged) individually
        hs = S.chandles[-len(real[1]):] if real[1] else []
        if len(hs) == len(real[1]) and all(M.same_value(a, b) for a, b in zip(real[1], hs)):
            finding = F_CONTOUR
    ctx.check("contour_equals_fresh", ok,
              lambda: {"index": repr(idx), "was_cached": was_cached,
                       "capacity": lcl.contours.maxlen, "cached_indices": list(lcl.indices)[-8:],
                       "got": _short(M.describe_outcome(real)),
                       "fresh": _short(M.describe_outcome(fresh)), "spec": S.spec},
              finding=finding,
              message=f"contour list [{idx!r}] {_brief(real)}, fresh contour of that mask "
                      f"{_brief(fresh)} (was cached: {was_cached})")


# =========================================================================== scalar arrays
def _make_array(kind, orig):
    def __array__(self, *args, **kwargs):
        ctx = S.ctx
        if ctx is None or S.in_array:
            return orig(self, *args, **kwargs)
        real = _call(orig, self, *args, **kwargs)
        S.in_array += 1
        try:
            _judge_array(ctx, kind, self, args, kwargs, real)
        except Exception as exc:
            ctx.error(f"{kind} monitor", exc)
        finally:
            S.in_array -= 1
        return _ret(real)
    return __array__


def _judge_array(ctx, kind, obj, args, kwargs, real):
    from vmon.model import c17_cache as M
    dtype = args[0] if args else kwargs.get("dtype")
    entry = S.reg.get(id(obj))
    try:
        if entry is not None:
            entry[1].touch()
            fresh = entry[1].expected
            src = "generated data"
        elif kind == "H5ScalarEvent":
            fresh = obj.h5ds[()]
            src = "HDF5 dataset"
        elif kind == "ChildScalar":
            hp = obj.child.hparent
            filt = np.asarray(hp.filter.all)
            if int(filt.sum()) != len(obj.child):
                ctx.count("skipped_child_not_rejuvenated")
                return
            fresh = np.asarray(hp[obj.feat])[filt]
            src = "parent[filter]"
        else:
            if not obj.is_scalar:
                ctx.count("skipped_basin_feature_not_scalar")
                return
            fresh = np.asarray(obj.feat_obj[:])[np.asarray(obj.basinmap)]
            src = "basin[map]"
    except Exception:
        ctx.count(f"skipped_no_fresh_value[{kind}]")
        return
    if dtype is not None:
        fresh = np.asarray(fresh, dtype=dtype)
    ctx.count(f"scalar_array_calls[{kind}]")
    if real[0] != "ok":
        ctx.check("scalar_array_equals_fresh", False,
                  {"class": kind, "exc": repr(real[1])}, message=f"{kind}.__array__ raised")
        return
    got = real[1]
    if dtype is not None and isinstance(got, np.ndarray) and got.dtype != np.dtype(dtype):
        # numpy casts what __array__ returns; the property is about values
        ctx.count(f"scalar_array_dtype_request_ignored[{kind}]")
        got = got.astype(dtype)
    ok = M.same_value(np.asarray(got), np.asarray(fresh))
    finding = None
    if not ok and entry is not None and entry[1].aliases \
            and M.same_value(np.asarray(got), np.asarray(entry[1].shared, dtype=dtype)):
        finding = D13
    ctx.check("scalar_array_equals_fresh", ok,
              lambda: {"class": kind, "source_of_fresh": src, "got": _short(got),
                       "fresh": _short(fresh), "spec": S.spec,
                       "writes_through_earlier_results": entry[1].writes if entry else None},
              finding=finding,
              message=f"{kind}.__array__ returned {_brief(real)}, fresh value from {src} "
                      f"{_brief(('ok', np.asarray(fresh)))}")


# =========================================================================== install
_installed = False


def install():
    global _installed
    if _installed:
        return
    _installed = True
    from vmon.contracts import wrap_method, wrap_function
    from vmon.model import c17_cache as M
    from dclab import cached, util
    from dclab.features import contour
    from dclab.rtdc_dataset import feat_basin
    from dclab.rtdc_dataset.fmt_hdf5 import events as h5events
    from dclab.rtdc_dataset.fmt_hierarchy import events as hevents
    S.model = M.UndelimitedFifoModel(max_size=100)
    wrap_method(cached.Cache, "__call__", _make_cache_call)
    wrap_method(cached.Cache, "clear_cache", _make_clear_cache)
    wrap_function(util, "hashfile", _make_hashfile)
    wrap_method(contour.LazyContourList, "__getitem__", _make_contour_getitem)
    wrap_method(h5events.H5ScalarEvent, "__array__",
                functools.partial(_make_array, "H5ScalarEvent"))
    wrap_method(hevents.ChildScalar, "__array__", functools.partial(_make_array, "ChildScalar"))
    wrap_method(feat_basin.BasinProxyFeature, "__array__",
                functools.partial(_make_array, "BasinProxyFeature"))


# =========================================================================== memo workload
def _echo_functions():
    """Two synthetic decorated functions whose result is a faithful description of their
    arguments: any key confusion between distinguishable arguments shows in the result."""
    from dclab.cached import Cache

    def describe(a):
        if isinstance(a, np.ndarray):
            return ("ndarray", a.dtype.str, a.shape, np.array(a, copy=True))
        if isinstance(a, (list, tuple)):
            return (type(a).__name__,) + tuple(describe(x) for x in a)
        return (type(a).__name__, repr(a))

    def echo_one(*args, **kwargs):
        """first synthetic function"""
        return ("echo_one", tuple(describe(a) for a in args),
                tuple((k, describe(kwargs[k])) for k in sorted(kwargs)))

    def echo_two(*args, **kwargs):
        """second synthetic function"""
        return ("echo_two", tuple(describe(a) for a in args),
                tuple((k, describe(kwargs[k])) for k in sorted(kwargs)))
    return {"echo_one": Cache(echo_one), "echo_two": Cache(echo_two)}


ECHO_VALUES = [1, "1", 1.0, True, None, "None", 12, [1, 2], [12], (1, 2), "12", [1, [2]],
               [[1], 2], 0, False, "", [], [""], np.int64(1), np.float32(1.0), "a", ["a"]]


N_EXH_ARRAYS = 8


def _exh_alphabet():
    one = np.array([1.0])
    return list(ECHO_VALUES) + [
        one, one.view(np.int64), one.reshape(1, 1), one.view(np.float32),
        np.zeros(0), np.zeros(0, dtype=np.int32), np.zeros((0, 3)), np.array([1.0, 1.0])]


def run_exh(ctx, idx, depth):
    """All calls echo(*t) for tuples t over the alphabet: length <= 2 (quick; one case) or
    length 3 with first element `idx` plus all shorter ones (thorough).  The capacity is
    raised so that every earlier call is still cached: every pair of calls is confronted."""
    import itertools
    from dclab import cached
    from dclab.cached import Cache
    alpha = _exh_alphabet()
    assert len(alpha) == len(ECHO_VALUES) + N_EXH_ARRAYS
    _new_case()
    old_size = cached.MAX_SIZE
    cached.MAX_SIZE = 10 ** 7
    S.model.max_size = 10 ** 7
    try:
        Cache.clear_cache()
        fns = _echo_functions()
        ids = range(len(alpha))
        tuples = [()] + [(i,) for i in ids] + list(itertools.product(ids, ids))
        if depth == 3:
            tuples += [(idx, j, k) for j in ids for k in ids]
        n = 0
        for t in tuples:
            for fname in ("echo_one", "echo_two"):
                S.spec = {"exh": [repr(alpha[i])[:40] for i in t], "fn": fname}
                _call(fns[fname], *[alpha[i] for i in t])
                n += 1
        # keyword forms: one positional + one keyword, keyword only
        for i in ids:
            for j in ids:
                S.spec = {"exh": [repr(alpha[i])[:40]], "kw_a": repr(alpha[j])[:40]}
                _call(fns["echo_one"], alpha[i], a=alpha[j])
                _call(fns["echo_one"], a=alpha[i], b=alpha[j])
                _call(fns["echo_one"], ab=alpha[i])
                n += 3
        S.spec = None
        sweep_cache(ctx)
        ctx.count("exh_calls", n)
        ctx.count(f"exh_depth[{depth}]")
        ctx.mark_nontrivial(["exh", depth, idx])
        ctx.sample({"kind": "exh", "depth": depth, "first": idx, "calls": n,
                    "alphabet": [repr(a)[:30] for a in alpha], "observed": S.case})
    finally:
        cached.MAX_SIZE = old_size
        S.model.max_size = 100
        Cache.clear_cache()


def _echo_calls(rng, arrays, n):
    names = sorted(arrays)
    calls = []
    for _ in range(n):
        fn = str(rng.choice(["echo_one", "echo_two"]))
        r = rng.random()
        if r < 0.45:
            k = int(rng.integers(0, 4))
            args = [["val", ECHO_VALUES[int(i)]] for i in rng.integers(0, len(ECHO_VALUES), k)]
            kw = {}
            if rng.random() < 0.4:
                kw[str(rng.choice(["a", "b", "ab"]))] = \
                    ["val", ECHO_VALUES[int(rng.integers(0, len(ECHO_VALUES)))]]
            calls.append({"fn": fn, "via": "echo", "args": args, "kwargs": kw})
        else:
            k = int(rng.integers(1, 3))
            args = [["arr", str(rng.choice(names))] for _ in range(k)]
            if rng.random() < 0.3:
                args.append(["val", ECHO_VALUES[int(rng.integers(0, len(ECHO_VALUES)))]])
            if rng.random() < 0.2:
                args = [["lst", [a[1] for a in args if a[0] == "arr"]]]
            calls.append({"fn": fn, "via": "echo", "args": args, "kwargs": {}})
    return calls


def _resolve(ref, arrays):
    if ref[0] == "arr":
        return arrays[ref[1]]
    if ref[0] == "lst":
        return [arrays[n] for n in ref[1]]
    return ref[1]


def _targets():
    from dclab import kde_methods, downsampling
    t = {}
    for name in ("kde_gauss", "kde_histogram", "kde_multivariate"):
        pub = getattr(kde_methods, name)
        inner = [c.cell_contents for c in pub.__closure__
                 if type(c.cell_contents).__name__ == "Cache"][0]
        t[(name, "public")] = pub
        t[(name, "inner")] = inner
    t[("downsample_grid", "public")] = downsampling.downsample_grid
    t[("downsample_grid", "inner")] = downsampling.downsample_grid
    return t


def run_memo(ctx, idx):
    from dclab.cached import Cache
    from vmon.gen import c17_pool as G
    rng = ctx.rng(idx, salt=1)
    Cache.clear_cache()
    _new_case()
    arrays, calls, n = G.build_pool(rng)
    calls = calls + _echo_calls(rng, arrays, 80)
    targets = _targets()
    targets.update({(k, "echo"): v for k, v in _echo_functions().items()})
    length = int(rng.integers(150, 501))
    seq = G.gen_sequence(rng, len(calls), length)
    writable = [k for k, a in arrays.items() if a.flags.writeable and a.dtype == np.float64
                and a.dtype.isnative and a.ndim == 1]
    n_mut = 0
    for step, ci in enumerate(seq):
        c = calls[ci]
        if rng.random() < 0.03 and writable:
            # change a pool array in place: the key must follow the content
            nm = str(rng.choice(writable))
            arrays[nm][int(rng.integers(0, len(arrays[nm])))] = float(rng.normal())
            n_mut += 1
            ctx.count("memo_pool_array_changed_in_place")
        if rng.random() < 0.001:
            Cache.clear_cache()
        fn = targets[(c["fn"], c["via"])]
        args = [_resolve(r, arrays) for r in c["args"]]
        kwargs = {k: _resolve(r, arrays) for k, r in c["kwargs"].items()}
        S.spec = {"step": step, "call": ci, "fn": c["fn"], "via": c["via"],
                  "args": c["args"], "kwargs": c["kwargs"]}
        _call(fn, *args, **kwargs)     # judged by the monitor; exceptions are outcomes
    S.spec = None
    sweep_cache(ctx)
    cs = S.case
    ctx.count("memo_sequences")
    ctx.count("memo_sequence_calls", length)
    if cs["hits_after_eviction"] and cs["collisions"]:
        ctx.mark_nontrivial(["memo", idx, n, length, seq[:50]])
    if idx % 16 == 0:
        ctx.sample({"kind": "memo", "case": idx, "pool_arrays": len(arrays), "n": n,
                    "call_specs": len(calls), "sequence_length": length, "observed": cs,
                    "first_calls": [calls[i] for i in seq[:3]]})


# =========================================================================== hash workload
def run_hash(ctx, idx):
    from dclab import util
    from vmon import boot
    rng = ctx.rng(idx, salt=3)
    tmp = pathlib.Path(boot.scratch()) / f"hash{idx}"
    tmp.mkdir(parents=True, exist_ok=True)
    _new_case()
    cwd0 = os.getcwd()
    try:
        nf = int(rng.integers(2, 5))
        files = [tmp / f"f{i}.bin" for i in range(nf)]
        clock = [1_600_000_000_000_000_000 + int(rng.integers(0, 10 ** 9))]

        def write(p, data, bump=True):
            p.write_bytes(data)
            if bump:
                clock[0] += int(rng.integers(1, 5 * 10 ** 9))
                os.utime(p, ns=(clock[0], clock[0]))

        sizes = [0, 1, 63, 64, 65, 200, 1000, 65536, 65537, 140000]
        for p in files:
            write(p, rng.bytes(int(rng.choice(sizes))))
        link = tmp / "link.bin"
        os.symlink(files[0], link)
        link_target = [0]
        (tmp / "sub").mkdir()
        # the same relative name in two working directories
        for k_ in (1, 2):
            (tmp / f"run_{k_}").mkdir()
            write(tmp / f"run_{k_}" / "same.bin", rng.bytes(int(rng.choice(sizes[1:]))))
        n_ops = int(rng.integers(60, 201))
        ctors = [None, hashlib.md5, hashlib.sha1, hashlib.sha256]
        rewritten_since = {}
        seen_specs = {}
        nontrivial = False
        for step in range(n_ops):
            r = rng.random()
            fi = int(rng.integers(0, nf))
            p = files[fi]
            if r < 0.06:
                # the symbolic link is re-pointed to another file
                j_ = int(rng.choice([j for j in range(nf) if j != link_target[0]]))
                link.unlink()
                os.symlink(files[j_], link)
                link_target[0] = j_
                ctx.count("hash_file_op[relink]")
                continue
            if r < 0.25:
                kind = str(rng.choice(["new_size", "same_size", "append", "truncate", "delete",
                                       "replace", "restore_stat", "same_content_touch",
                                       "new_size_same_mtime"]))
                ctx.count(f"hash_file_op[{kind}]")
                old = p.read_bytes() if p.exists() else b""
                if kind == "new_size":
                    write(p, rng.bytes(int(rng.choice(sizes))))
                elif kind == "same_size":
                    write(p, rng.bytes(len(old)))
                elif kind == "append":
                    write(p, old + rng.bytes(int(rng.integers(1, 100))))
                elif kind == "truncate":
                    write(p, old[:len(old) // 2])
                elif kind == "delete":
                    if p.exists():
                        p.unlink()
                elif kind == "replace":
                    q = tmp / "new.tmp"
                    write(q, rng.bytes(len(old)))
                    os.replace(q, p)
                elif kind == "restore_stat":
                    # don't-care: content changes, size and mtime restored
                    if p.exists() and len(old):
                        st = os.stat(p)
                        p.write_bytes(rng.bytes(len(old)))
                        os.utime(p, ns=(st.st_atime_ns, st.st_mtime_ns))
                elif kind == "new_size_same_mtime":
                    # the size is part of the documented key: must be noticed
                    if p.exists():
                        st = os.stat(p)
                        p.write_bytes(old + rng.bytes(int(rng.integers(1, 50))))
                        os.utime(p, ns=(st.st_atime_ns, st.st_mtime_ns))
                else:
                    write(p, old)
                rewritten_since[fi] = True
                continue
            # ---- a hashfile call
            form = str(rng.choice(["path", "str", "relative", "symlink", "dotdot",
                                   "cwd_relative"]))
            if form == "path":
                arg = p
            elif form == "str":
                arg = str(p)
            elif form == "relative":
                arg = os.path.relpath(p)
            elif form == "symlink":
                arg = link
                fi, p = link_target[0], files[link_target[0]]
            elif form == "cwd_relative":
                k_ = int(rng.integers(1, 3))
                os.chdir(tmp / f"run_{k_}")
                arg = "same.bin"
                fi = 100 + k_
            else:
                arg = tmp / "sub" / ".." / p.name
            blocksize = int(rng.choice([1, 7, 64, 1000, 65536]))
            count = int(rng.choice([0, 0, 1, 2, 20]))
            ctor = ctors[int(rng.integers(0, len(ctors)))]
            style = str(rng.choice(["default", "kw", "kw", "positional", "mixed", "fname_kw",
                                    "hasher_class"], p=[.2, .25, .2, .12, .1, .05, .08]))
            args, kw = [arg], {}
            if style == "kw":
                kw = {"blocksize": blocksize, "count": count}
                if ctor is not None:
                    kw["constructor"] = ctor
            elif style == "positional":
                args = [arg, blocksize, count] + ([ctor] if ctor is not None else [])
                if rng.random() < 0.3:
                    args = [arg, blocksize]
            elif style == "mixed":
                args = [arg, blocksize]
                kw = {"count": count}
            elif style == "fname_kw":
                args, kw = [], {"fname": arg, "count": count}
            elif style == "hasher_class":
                kw = {"hasher_class": ctor or hashlib.sha1, "blocksize": blocksize}
            skey = repr((fi, style, blocksize, count, getattr(ctor, "__name__", None)))
            if seen_specs.get(skey) and rewritten_since.get(fi):
                nontrivial = True
            seen_specs[skey] = True
            S.spec = {"step": step, "file": fi, "path_form": form, "style": style}
            ctx.count(f"hash_call_style[{style}]")
            _call(util.hashfile, *args, **kw)      # judged by the monitor
        S.spec = None
        ci = util.hashfile.cache_info()
        ctx.count("hash_sequences")
        if nontrivial:
            ctx.mark_nontrivial(["hash", idx, n_ops])
        if idx % 40 == 0:
            ctx.sample({"kind": "hash", "case": idx, "files": nf, "ops": n_ops,
                        "lru_cache_info": repr(ci)})
    finally:
        try:
            os.chdir(cwd0)
        except Exception:
            pass
        shutil.rmtree(tmp, ignore_errors=True)


# =========================================================================== contour workload
def _mask_stack(rng, n, h, w):
    from vmon.gen import dataset as gd
    masks = gd.blob_masks(rng, n, h, w)
    # a few hostile masks: empty, full, single pixel, two blobs
    for i in range(n):
        r = rng.random()
        if r < 0.04:
            masks[i] = False
        elif r < 0.08:
            masks[i] = True
        elif r < 0.12:
            masks[i] = False
            masks[i, int(rng.integers(0, h)), int(rng.integers(0, w))] = True
        elif r < 0.2:
            masks[i] |= gd.blob_masks(rng, 1, h, w)[0]
    return masks


def run_contour(ctx, idx):
    import h5py
    from dclab.features.contour import LazyContourList
    from vmon import boot
    rng = ctx.rng(idx, salt=4)
    _new_case()
    n = int(rng.integers(1, 25))
    h, w = int(rng.integers(5, 20)), int(rng.integers(5, 20))
    masks = _mask_stack(rng, n, h, w)
    cap = [1, 2, 3, 3, 5, None, 0, 1000][int(rng.integers(0, 8))]
    backing = str(rng.choice(["ndarray", "h5py", "list"]))
    h5 = None
    tmp = None
    try:
        if backing == "h5py":
            tmp = pathlib.Path(boot.scratch()) / f"cont{idx}.h5"
            h5 = h5py.File(tmp, "w")
            src = h5.create_dataset("m", data=masks)
        elif backing == "list":
            src = [m for m in masks]
        else:
            src = masks
        lcl = LazyContourList(src, max_events=cap)
        n_ops = int(rng.integers(20, 120))
        hot = rng.integers(0, n, size=min(n, 4))
        for step in range(n_ops):
            r = rng.random()
            if r < 0.5:
                i = int(rng.choice(hot))
            else:
                i = int(rng.integers(-n, n))
            form = rng.random()
            if form < 0.7:
                key = i
            elif form < 0.8:
                key = np.int64(i)
            else:
                a, b = sorted(int(x) for x in rng.integers(0, n + 1, 2))
                key = slice(a, b, int(rng.choice([1, 1, 2])))
            S.spec = {"step": step, "capacity": cap, "backing": backing, "n": n}
            _call_base(lcl.__getitem__, key)       # judged by the monitor
        S.spec = None
        ctx.count("contour_sequences")
        ctx.count(f"contour_backing[{backing}]")
        if S.case["hits_after_eviction"]:
            ctx.mark_nontrivial(["contour", idx, n, cap, n_ops])
        if idx % 40 == 0:
            ctx.sample({"kind": "contour", "case": idx, "n": n, "capacity": cap,
                        "backing": backing, "ops": n_ops, "observed": S.case})
    finally:
        if h5 is not None:
            h5.close()
        if tmp is not None and tmp.exists():
            tmp.unlink()


def run(spec, ctx):
    S.ctx = ctx
    install()
    kind = spec["kind"]
    for idx in ctx.case_ids():
        try:
            if kind == "memo":
                run_memo(ctx, idx)
            elif kind == "hash":
                run_hash(ctx, idx)
            elif kind == "contour":
                run_contour(ctx, idx)
            elif kind == "exh":
                run_exh(ctx, idx, spec.get("depth", 2))
            else:
                from . import c17_feat
                c17_feat.run_feat(ctx, idx, S)
        except Exception as exc:
            ctx.error(f"{kind} case {idx}", exc)
