"""Native extension handling.

No Cython exists in this sandbox, so a .pyx edit cannot take effect. What can be done:
* ensure(): if a shipped .c file is newer than its .so, recompile it the way setup.py
  would (gcc, numpy include dir) so that checks monitor the current working tree;
  if a .pyx is newer than its .c print a loud NATIVE-STALE note.
* build_sanitized(dest): compile the four shipped .c files with clang
  -fsanitize=address,undefined into an overlay package for the sanitizer adjunct.
"""
import os
import pathlib
import subprocess
import sys
import sysconfig

REPO = pathlib.Path(os.environ.get("VERIF_REPO", "/repo")).resolve()

EXTS = [
    "dclab/downsampling",
    "dclab/external/skimage/_shared/geometry",
    "dclab/external/skimage/_find_contours_cy",
    "dclab/external/skimage/_pnpoly",
]
SUFFIX = sysconfig.get_config_var("EXT_SUFFIX")


def _includes():
    import numpy as np
    return ["-I" + np.get_include(), "-I" + sysconfig.get_paths()["include"]]


def stale_notes(repo=REPO):
    notes = []
    for e in EXTS:
        pyx, c = repo / (e + ".pyx"), repo / (e + ".c")
        if pyx.exists() and c.exists() and pyx.stat().st_mtime > c.stat().st_mtime + 1:
            notes.append(f"NATIVE-STALE: {e}.pyx is newer than {e}.c; no Cython in this "
                         f"sandbox, the monitors observe the previously generated code")
    return notes


def ensure(repo=REPO, verbose=True):
    for e in EXTS:
        c, so = repo / (e + ".c"), repo / (e + SUFFIX)
        if not c.exists():
            continue
        if so.exists() and so.stat().st_mtime >= c.stat().st_mtime:
            continue
        cmd = ["gcc", "-shared", "-fPIC", "-O2", "-fwrapv", "-w", *_includes(),
               str(c), "-o", str(so)]
        if verbose:
            print("rebuilding", so.name)
        subprocess.run(cmd, check=True)
    for n in stale_notes(repo):
        print(n)


def build_sanitized(dest, repo=REPO):
    """Overlay: symlink every file of repo/dclab into dest/dclab, replace the .so files by
    ASan+UBSan builds of the shipped .c files. Returns (overlay_root, env additions)."""
    dest = pathlib.Path(dest)
    src = repo / "dclab"
    for root, dirs, files in os.walk(src):
        rel = pathlib.Path(root).relative_to(src)
        if "__pycache__" in rel.parts:
            continue
        (dest / "dclab" / rel).mkdir(parents=True, exist_ok=True)
        for f in files:
            if f.endswith((".so", ".pyc")):
                continue
            tgt = dest / "dclab" / rel / f
            if not tgt.exists():
                os.symlink(pathlib.Path(root) / f, tgt)
    if not (dest / "CHANGELOG").exists():
        os.symlink(repo / "CHANGELOG", dest / "CHANGELOG")
    procs = []
    for e in EXTS:
        c, so = repo / (e + ".c"), dest / (e + SUFFIX)
        cmd = ["clang", "-shared", "-fPIC", "-O1", "-g", "-fno-omit-frame-pointer", "-w",
               "-fsanitize=address,undefined", "-fno-sanitize-recover=undefined",
               "-fwrapv", *_includes(), str(c), "-o", str(so)]
        procs.append(subprocess.Popen(cmd))
    for p in procs:
        if p.wait() != 0:
            raise RuntimeError("sanitizer build failed")
    rt = "/usr/lib/llvm-14/lib/clang/14.0.6/lib/linux/libclang_rt.asan-x86_64.so"
    env = {"LD_PRELOAD": rt, "VERIF_REPO": str(dest)}
    return dest, env


if __name__ == "__main__":
    if sys.argv[1:] == ["ensure"]:
        ensure()
