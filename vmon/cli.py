import argparse
import os
import sys

from . import runner


def main():
    ap = argparse.ArgumentParser()
    ap.add_argument("prop")
    ap.add_argument("--tier", default=os.environ.get("VERIF_TIER", "quick"),
                    choices=["quick", "thorough"])
    ap.add_argument("--seed", type=int, default=int(os.environ.get("VERIF_SEED", "0")))
    ap.add_argument("--replay")
    ap.add_argument("--jobs", type=int)
    ap.add_argument("-q", action="store_true")
    a = ap.parse_args()
    sys.exit(runner.run_check(a.prop.upper(), a.tier, a.seed, a.replay, a.jobs,
                              verbose=not a.q))


if __name__ == "__main__":
    main()
