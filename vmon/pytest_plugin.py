"""pytest plugin: run the repository's own tests with the context-free monitors switched on
(DESIGN section 2.7).  usage (from /repo):
    PYTHONPATH=/verif:/verif/.deps /venv/bin/python -m pytest -p vmon.pytest_plugin -p no:cacheprovider tests/...
The monitors' observations are written to $VMON_PLUGIN_OUT (default /dev/shm/vmon_plugin_<pid>.json).
A firing here is read by hand first: too strict, or a defect the tests do not assert.
"""
import json
import os

from vmon import boot

boot.boot(quiet_warnings=False)      # release-version pre-seed before the tests import dclab

_ctx = None


def pytest_configure(config):
    global _ctx
    from vmon.ctx import ShardCtx
    _ctx = ShardCtx("C00", {"seed": 0, "shard": 0, "tier": "quick", "cases": []})
    _ctx.case = "repository test suite"
    from vmon.monitors import writer as wmon, export as emon, cli_tasks
    from vmon.work import c04, c20, c19, c07
    wmon.install(_ctx)
    emon.install(_ctx)
    cli_tasks.install(_ctx)
    cli_tasks.install_split_join(_ctx)
    c20.install(_ctx)
    c04.install(_ctx)
    c07.install(_ctx)
    c19._State.ctx = _ctx
    c19.install()


def pytest_runtest_setup(item):
    if _ctx is not None:
        _ctx.case = item.nodeid


def pytest_sessionfinish(session, exitstatus):
    if _ctx is None:
        return
    out = os.environ.get("VMON_PLUGIN_OUT", f"/dev/shm/vmon_plugin_{os.getpid()}.json")
    res = _ctx.result()
    with open(out, "w") as fd:
        json.dump({"monitors": res["monitors"], "violations": res["violations"],
                   "vclasses": res["vclasses"], "errors": res["errors"],
                   "counters": res["counters"]}, fd, indent=1)
