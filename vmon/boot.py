"""Boot code: must run before anything imports dclab.

* puts $VERIF_REPO (default /repo) first on sys.path so that a scratch copy can be
  monitored without touching /repo,
* pre-seeds ``dclab._version`` with the release number from CHANGELOG (the generated
  _version.py of this sandbox says 0.0.post1+g..., with which dclab refuses to re-open
  its own files; that is a sandbox artefact, see DESIGN.md section 0),
* puts /verif/.deps (icontract) on sys.path, installing it offline when missing,
* provides a scratch directory on /dev/shm that is removed at exit.
"""
import atexit
import os
import pathlib
import shutil
import subprocess
import sys
import tempfile
import types
import warnings

VERIF = pathlib.Path(__file__).resolve().parent.parent
REPO = pathlib.Path(os.environ.get("VERIF_REPO", "/repo")).resolve()
DEPS = VERIF / ".deps"
WHEELS = "/opt/veriftools/wheels"

_booted = False
_scratch = None


def ensure_deps():
    """Install icontract into /verif/.deps (offline) if it is not there."""
    if (DEPS / "icontract").exists():
        return
    DEPS.mkdir(exist_ok=True)
    subprocess.run(
        [sys.executable, "-m", "pip", "install", "--quiet", "--no-index",
         "--find-links", WHEELS, "--target", str(DEPS), "icontract"],
        check=True, stdout=subprocess.DEVNULL, stderr=subprocess.DEVNULL)


def release_version():
    first = (REPO / "CHANGELOG").read_text().splitlines()[0].strip()
    # first line looks like "0.62.7"
    ver = first.split()[0]
    parts = tuple(int(p) for p in ver.split(".") if p.isdigit())
    return ver, parts


def boot(quiet_warnings=True):
    global _booted
    if _booted:
        return
    _booted = True
    if str(REPO) in sys.path:
        sys.path.remove(str(REPO))
    sys.path.insert(0, str(REPO))
    if DEPS.exists() and str(DEPS) not in sys.path:
        sys.path.append(str(DEPS))
    ver, parts = release_version()
    mod = types.ModuleType("dclab._version")
    mod.version = mod.__version__ = ver
    mod.version_tuple = mod.__version_tuple__ = parts
    mod.commit_id = mod.__commit_id__ = None
    mod.__all__ = ["__version__", "__version_tuple__", "version",
                   "version_tuple", "__commit_id__", "commit_id"]
    sys.modules["dclab._version"] = mod
    if quiet_warnings:
        warnings.simplefilter("ignore")
    import dclab  # noqa: F401
    # compare unresolved paths as well: the sanitizer overlay is a tree of symlinks
    got = pathlib.Path(os.path.abspath(dclab.__file__)).parent.parent
    want = pathlib.Path(os.path.abspath(os.environ.get("VERIF_REPO", "/repo")))
    if got != want and got.resolve() != REPO:
        raise RuntimeError(f"dclab imported from {got}, expected {want}")


def scratch():
    """Per-process scratch directory on tmpfs, removed at exit."""
    global _scratch
    if _scratch is None:
        base = "/dev/shm" if os.path.isdir("/dev/shm") else None
        _scratch = pathlib.Path(tempfile.mkdtemp(prefix="vmon-", dir=base))
        atexit.register(shutil.rmtree, str(_scratch), ignore_errors=True)
    return _scratch


ASSUMPTIONS = [
    "dclab._version is pre-seeded with the release number from /repo/CHANGELOG "
    "(the generated 0.0.post1 brand of this sandbox makes dclab refuse its own files)",
    "monitors observe the real dclab code imported from $VERIF_REPO (default /repo); "
    "Cython extensions are the built .so files (no Cython in this sandbox)",
]
