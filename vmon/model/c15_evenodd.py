"""C15 reference model: exact even-odd (crossing parity) point-in-polygon classification.

Nothing in this file imports or calls dclab.  All deciding arithmetic is integer arithmetic
(numpy int64 on small grids where no overflow is possible, Python big integers for floats
that were converted exactly with ``float.as_integer_ratio``); no floating-point rounding
takes part in a verdict.

Two independent definitions of "a ray from the point crosses the boundary an odd number of
times" are implemented and cross-checked against each other by the driver
(monitor ``oracle_selfcheck``):

* ``halfopen``: ray in +x direction, an edge (a, b) is counted when ``a.y <= y < b.y`` or
  ``b.y <= y < a.y`` and the exact crossing abscissa is > x.  This is the textbook way to
  count a +x ray "shifted infinitesimally upwards"; horizontal edges never count.
* ``generic ray``: ray in direction (K, 1) with K larger than every coordinate difference,
  so that (for integer coordinates) the ray provably contains no polygon vertex other than
  the query point itself; every edge is then either crossed transversally in its interior
  or not touched at all, and no tie-breaking rule exists that could be wrong.

A point is *on the boundary* when it lies on a closed edge segment (exact collinearity +
bounding box, or equality with the vertex for a zero-length edge).  Such points are outside
the property statement and are masked (don't care).
"""
import numpy as np

# --------------------------------------------------------------------------- numpy batch
# Coordinates are "doubled grid" integers (grid vertex g -> 2 g, half-grid query points are
# odd numbers); |values| < 2**10, every product below stays < 2**31.


def batch_halfopen(V, P):
    """V: (B, L, 2) int64 polygons, P: (N, 2) int64 query points.

    Returns (inside, onb, raythru), each (B, N) bool:
    inside  - crossing parity by the half-open rule
    onb     - point lies on the boundary (closed segments) -> don't care
    raythru - the +x ray from the point passes through a vertex (vertex level with the
              point and strictly to its right); this is the configuration where
              tie-breaking decides.
    """
    V = np.asarray(V, dtype=np.int64)
    P = np.asarray(P, dtype=np.int64)
    xi = V[:, :, 0][:, :, None]
    yi = V[:, :, 1][:, :, None]
    Vj = np.roll(V, 1, axis=1)          # j = i - 1 (previous vertex, cyclic)
    xj = Vj[:, :, 0][:, :, None]
    yj = Vj[:, :, 1][:, :, None]
    x = P[:, 0][None, None, :]
    y = P[:, 1][None, None, :]
    dy = yj - yi
    dx = xj - xi
    straddle = ((yi <= y) & (y < yj)) | ((yj <= y) & (y < yi))
    lhs = (x - xi) * dy
    rhs = dx * (y - yi)
    # x < xi + dx*(y-yi)/dy   <=>   (x-xi)*dy < dx*(y-yi) if dy > 0 else >
    right = np.where(dy > 0, lhs < rhs, lhs > rhs)
    inside = (np.count_nonzero(straddle & right, axis=1) & 1).astype(bool)
    onseg = ((lhs == rhs)
             & (np.minimum(xi, xj) <= x) & (x <= np.maximum(xi, xj))
             & (np.minimum(yi, yj) <= y) & (y <= np.maximum(yi, yj)))
    onb = onseg.any(axis=1)
    raythru = ((yi == y) & (xi > x)).any(axis=1)
    return inside, onb, raythru


def batch_generic_ray(V, P, K):
    """Crossing parity of the ray p + t (K, 1), t > 0.  K must exceed every |vx - px|.
    Returns parity (B, N) bool; meaningless where the point is on the boundary."""
    V = np.asarray(V, dtype=np.int64)
    P = np.asarray(P, dtype=np.int64)
    ax = V[:, :, 0][:, :, None]
    ay = V[:, :, 1][:, :, None]
    Vb = np.roll(V, -1, axis=1)
    bx = Vb[:, :, 0][:, :, None]
    by = Vb[:, :, 1][:, :, None]
    x = P[:, 0][None, None, :]
    y = P[:, 1][None, None, :]
    sa = K * (ay - y) - (ax - x)
    sb = K * (by - y) - (bx - x)
    opposite = ((sa > 0) & (sb < 0)) | ((sa < 0) & (sb > 0))
    ex = bx - ax
    ey = by - ay
    c1 = (ax - x) * ey - (ay - y) * ex      # cross(a - p, b - a)
    c2 = K * ey - ex                        # cross(dir, b - a)
    forward = ((c1 > 0) & (c2 > 0)) | ((c1 < 0) & (c2 < 0))
    return (np.count_nonzero(opposite & forward, axis=1) & 1).astype(bool)


# --------------------------------------------------------------------------- big integers
def scale_exact(*arrays):
    """Convert sequences of Python/numpy floats to integers on one common power-of-two
    scale, exactly.  Returns (list_of_int_lists, D) with value = int / D."""
    ratios = [[float(v).as_integer_ratio() for v in arr] for arr in arrays]
    D = 1
    for rr in ratios:
        for _n, d in rr:
            if d > D:
                D = d
    return [[n * (D // d) for n, d in rr] for rr in ratios], D


def halfopen_int(vx, vy, x, y):
    """(inside, on_boundary) for integer coordinates (Python ints, any size)."""
    n = len(vx)
    c = False
    onb = False
    j = n - 1
    for i in range(n):
        xi, yi, xj, yj = vx[i], vy[i], vx[j], vy[j]
        dy = yj - yi
        dx = xj - xi
        lhs = (x - xi) * dy
        rhs = dx * (y - yi)
        if lhs == rhs:
            if (min(xi, xj) <= x <= max(xi, xj)) and (min(yi, yj) <= y <= max(yi, yj)):
                onb = True
        if (yi <= y < yj) or (yj <= y < yi):
            if (lhs < rhs) if dy > 0 else (lhs > rhs):
                c = not c
        j = i
    return c, onb


def generic_ray_int(vx, vy, x, y):
    """Parity of proper crossings of the ray p + t (K, 1).  Requires integer coordinates.
    Returns None if p lies on the boundary (or, defensively, if the ray touches a vertex,
    which the choice of K excludes)."""
    n = len(vx)
    K = max(abs(v - x) for v in vx) + 2
    c = False
    for a in range(n):
        b = (a + 1) % n
        ax, ay, bx, by = vx[a] - x, vy[a] - y, vx[b] - x, vy[b] - y
        sa = K * ay - ax
        sb = K * by - bx
        if sa == 0 or sb == 0:
            # a vertex on the ray's line: only possible for the vertex == p
            if (ax == 0 and ay == 0) or (bx == 0 and by == 0):
                return None
            # vertex on the backward half-line is harmless only if strictly behind;
            # by construction of K this cannot happen for integer coordinates
            return None
        if (sa > 0) == (sb > 0):
            continue
        ex, ey = bx - ax, by - ay
        c1 = ax * ey - ay * ex
        c2 = K * ey - ex
        if c1 == 0:
            return None  # p on the edge
        if (c1 > 0) == (c2 > 0):
            c = not c
    return c


#: relative half-width of the don't-care band around the exact crossing abscissa within
#: which the double-precision evaluation of ``(xj-xi)*(y-yi)/(yj-yi)+xi`` may err:
#: 6 roundings, |quotient| <= |xj-xi| <= 2M, |result| <= M  =>  error < 11.1 u M < 2**-49 M
#: (u = 2**-53, M = max |vertex x|).  2**-48 leaves a factor of two.
ABSCISSA_BAND_LOG2 = 48
#: relative radius (w.r.t. the largest |coordinate|) of the Euclidean don't-care band for
#: filters reloaded from a .poly file: 16 significant digits move every vertex coordinate by
#: <= 6.2e-16 M, i.e. the boundary by <= 8.8e-16 M, plus the abscissa band (3.6e-15 M) of the
#: perturbed polygon; 2**-47 = 7.1e-15.
RELOAD_BAND_LOG2 = 47


def classify_float(verts, pts, euclid_band=False):
    """Exact classification of float points against a float polygon.

    verts: (L, 2) floats, pts: (N, 2) floats (finite).
    Returns dict of lists (length N):
      inside   exact half-open crossing parity
      onb      exactly on the boundary (don't care by the statement)
      near     inside the abscissa band of some edge whose closed y-range contains the
               point (don't care: floating-point evaluation of the crossing abscissa)
      near_e   (only if euclid_band) within the Euclidean reload band of the boundary
      raythru  +x ray passes exactly through a vertex
      generic  parity by the generic-ray definition (None on the boundary)
    """
    verts = np.asarray(verts, dtype=np.float64)
    pts = np.asarray(pts, dtype=np.float64)
    (vx, vy, px, py), _D = scale_exact(verts[:, 0], verts[:, 1], pts[:, 0], pts[:, 1])
    n = len(vx)
    Mx = max(abs(v) for v in vx)
    Mxy = max(Mx, max(abs(v) for v in vy))
    sh_a = ABSCISSA_BAND_LOG2
    sh_e2 = 2 * RELOAD_BAND_LOG2
    Mxy2 = Mxy * Mxy
    inside, onb, near, near_e, raythru, generic = [], [], [], [], [], []
    for x, y in zip(px, py):
        c = False
        ob = False
        nr = False
        ne = False
        rt = False
        j = n - 1
        for i in range(n):
            xi, yi, xj, yj = vx[i], vy[i], vx[j], vy[j]
            dy = yj - yi
            dx = xj - xi
            lhs = (x - xi) * dy
            rhs = dx * (y - yi)
            ylo, yhi = (yi, yj) if yi <= yj else (yj, yi)
            if ylo <= y <= yhi:
                if lhs == rhs and (min(xi, xj) <= x <= max(xi, xj)):
                    ob = True
                # |x - X| <= M 2^-48  <=>  |lhs - rhs| 2^48 <= M |dy|
                if dy != 0 and (abs(lhs - rhs) << sh_a) <= Mx * abs(dy):
                    nr = True
                if yi == y and xi > x:
                    rt = True
                if y < yhi and ylo <= y and dy != 0:
                    if (lhs < rhs) if dy > 0 else (lhs > rhs):
                        c = not c
            if euclid_band and not ne:
                wx, wy = x - xi, y - yi
                t = wx * dx + wy * dy
                dd = dx * dx + dy * dy
                if dd == 0 or t <= 0:
                    ne = ((wx * wx + wy * wy) << sh_e2) <= Mxy2
                elif t >= dd:
                    ux, uy = x - xj, y - yj
                    ne = ((ux * ux + uy * uy) << sh_e2) <= Mxy2
                else:
                    cr = lhs - rhs
                    ne = ((cr * cr) << sh_e2) <= Mxy2 * dd
            j = i
        inside.append(c)
        onb.append(ob)
        near.append(nr)
        near_e.append(ne)
        raythru.append(rt)
        generic.append(None if ob else generic_ray_int(vx, vy, x, y))
    return {"inside": inside, "onb": onb, "near": near, "near_e": near_e,
            "raythru": raythru, "generic": generic}


# --------------------------------------------------------------------------- persistence
def sixteen_digit_roundtrip(v):
    """The double obtained by writing v with 16 significant decimal digits and reading it
    back (what a text format with '{:.15e}' can preserve), computed with exact rational
    arithmetic instead of the C library formatter."""
    from fractions import Fraction
    v = float(v)
    if v == 0 or v != v or v in (float("inf"), float("-inf")):
        return v
    fr = Fraction(v)
    a = abs(fr)
    # decimal exponent e with 10**e <= a < 10**(e+1)
    import math
    e = int(math.floor(math.log10(float(a))))
    while Fraction(10) ** e > a:
        e -= 1
    while Fraction(10) ** (e + 1) <= a:
        e += 1
    scale = Fraction(10) ** (15 - e)
    m = a * scale                         # 10**15 <= m < 10**16
    q, r = divmod(m.numerator, m.denominator)
    twice = 2 * r
    if twice > m.denominator or (twice == m.denominator and q % 2 == 1):
        q += 1                            # round half to even, like printf on exact ties
    dec = Fraction(q) / scale
    out = float(dec)                      # Fraction -> float is correctly rounded
    return -out if fr < 0 else out
