"""C16 - statement-derived oracle for downsampling and executable models of its known defects.

Nothing here imports dclab.  The oracle is total: for every input (arrays, request, flag)
it says which results are acceptable, purely from the property statement:

* the returned values are the input events selected by the returned boolean mask, in input
  order and value for value, nan matching nan (``values == a[idx]``; a boolean mask cannot
  select an event twice; a different dtype holding equal values is not judged);
* eligible events: all events, or - with ``remove_invalid`` - the events whose coordinates
  are all finite; nothing outside the eligible set is returned;
* number returned: ``request`` if ``0 < request <= #eligible``, all eligible events if
  ``request > #eligible``; ``request == 0`` is the documented "do not downsample" value
  (``RTDCBase.get_downsampled_scatter`` docstring; default of ``limit events``) and means
  all eligible events as well.

Which of the eligible events are chosen is *not* prescribed (only that the choice is
reproducible, which the driver checks by repetition).

The defect models predict, from the input alone, the exception raised by the built
``downsample_grid`` for the known defects; a violation is attributed to a mechanism only if
type and text of the observed exception equal the prediction.
"""
import warnings

import numpy as np

GRID = 300

M_PAD = "grid-request-exceeds-data-pad-with-invalid"      # D07
M_ZERO = "grid-zero-range-axis"                            # D08
M_OVER = "grid-axis-range-overflows"                       # new: max-min overflows to inf
M_ALIAS = "cache-key-is-undelimited-bytes"                 # D09 (C17) seen through C16
M_NONCONTIG = "cache-hash-rejects-noncontiguous-array"     # new: Cache._update_hash uses .view


# ------------------------------------------------------------------------------ oracle
def invalid(a):
    """nan/inf positions (integer and boolean arrays have none)."""
    a = np.asarray(a)
    if a.dtype.kind in "fc":
        return ~np.isfinite(a)
    return np.zeros(a.shape, dtype=bool)


def expected_count(request, n_eligible):
    if request == 0:
        return int(n_eligible)
    return int(min(request, n_eligible))


def same_bits(u, v):
    """Bit-for-bit equality of two arrays (dtype, shape, bytes): 'without alteration'."""
    return (isinstance(u, np.ndarray) and isinstance(v, np.ndarray)
            and u.dtype == v.dtype and u.shape == v.shape
            and np.ascontiguousarray(u).tobytes() == np.ascontiguousarray(v).tobytes())


def same_values(u, v):
    """Element-wise equality of two arrays, nan equal to nan.  This is what 'without
    alteration' can demand; a changed dtype with equal values is not judged."""
    if not (isinstance(u, np.ndarray) and isinstance(v, np.ndarray)) or u.shape != v.shape:
        return False
    if u.size == 0:
        return True
    with np.errstate(all="ignore"):
        eq = (u == v) | ((u != u) & (v != v))
    return bool(np.all(eq))


def judge(arrays, request, remove_invalid, values, idx):
    """Judge one downsampling result.

    arrays: tuple of the 1d input arrays (1 for the random, 2 for the grid method)
    values: tuple of returned arrays, idx: returned mask.
    Returns {"selection": problem|None, "eligible": ..., "count": ...}; problem is a short
    description of the disagreement with the statement.
    """
    n = int(arrays[0].shape[0])
    out = {"selection": None, "eligible": None, "count": None}
    if not (isinstance(idx, np.ndarray) and idx.dtype == np.bool_ and idx.shape == (n,)):
        desc = (f"{type(idx).__name__} dtype={getattr(idx, 'dtype', None)} "
                f"shape={getattr(idx, 'shape', None)}")
        out["selection"] = f"mask is not a boolean array of shape ({n},): {desc}"
        out["eligible"] = out["count"] = "mask unusable"
        return out
    for k, (arr, val) in enumerate(zip(arrays, values)):
        if not same_values(arr[idx], val):
            out["selection"] = (f"returned values of array {k} are not input[mask] "
                                f"(returned {getattr(val, 'shape', None)} "
                                f"{getattr(val, 'dtype', None)}, mask selects {int(idx.sum())} "
                                f"of dtype {arr.dtype})")
            break
    bad = np.zeros(n, dtype=bool)
    for arr in arrays:
        bad |= invalid(arr)
    if remove_invalid:
        n_el = n - int(bad.sum())
        n_in = int((idx & bad).sum())
        if n_in:
            out["eligible"] = f"{n_in} invalid event(s) returned although remove_invalid"
    else:
        n_el = n
    exp = expected_count(request, n_el)
    got = int(idx.sum())
    if got != exp:
        out["count"] = (f"{got} events returned, statement demands {exp} "
                        f"(request={request}, eligible={n_el}, n={n}, "
                        f"invalid={int(bad.sum())}, remove_invalid={remove_invalid})")
    return out


def scaled_invalid(a, scale):
    """Invalid positions of a dataset column after applying the plot scale."""
    a = np.asarray(a)
    bad = invalid(a)
    if scale == "log":
        with np.errstate(all="ignore"):
            bad = bad | ~(a > 0)        # log of 0 is -inf, of a negative number nan
    return bad


def judge_scatter(n_ds, fa, x, y, request, xscale, yscale, remove_invalid, xr, yr, mask):
    """Dataset level: fa = filter snapshot, x/y = full feature columns, xr/yr/mask result."""
    out = {"mask": None, "values": None, "eligible": None, "count": None}
    if not (isinstance(mask, np.ndarray) and mask.dtype == np.bool_ and mask.shape == (n_ds,)):
        out["mask"] = (f"mask is not a boolean array of len(ds)={n_ds}: "
                       f"dtype={getattr(mask, 'dtype', None)} "
                       f"shape={getattr(mask, 'shape', None)}")
        out["values"] = out["eligible"] = out["count"] = "mask unusable"
        return out
    outside = int((mask & ~fa).sum())
    if outside:
        out["mask"] = f"mask selects {outside} event(s) that do not pass the dataset filter"
    if not (same_values(np.asarray(x)[mask], xr) and same_values(np.asarray(y)[mask], yr)):
        out["values"] = (f"returned data are not ds[feat][mask] (returned "
                         f"{getattr(xr, 'shape', None)}/{getattr(yr, 'shape', None)}, "
                         f"mask selects {int(mask.sum())})")
    bad = scaled_invalid(x, xscale) | scaled_invalid(y, yscale)
    if remove_invalid:
        el = fa & ~bad
        n_in = int((mask & bad).sum())
        if n_in:
            out["eligible"] = (f"{n_in} event(s) that are invalid on the requested scale "
                               f"returned although remove_invalid")
    else:
        el = fa
    exp = expected_count(request, int(el.sum()))
    got = int(mask.sum())
    if got != exp:
        out["count"] = (f"{got} events selected, statement demands {exp} (request={request}, "
                        f"eligible={int(el.sum())}, filtered={int(fa.sum())}, "
                        f"invalid among filtered={int((fa & bad).sum())}, "
                        f"remove_invalid={remove_invalid})")
    return out


# ------------------------------------------------------------------- structure (evidence)
def request_class(request, n_valid, n):
    if request == 0:
        return "req=0"
    if request > n:
        return "req>N"
    if request == n:
        return "req=N"
    if request > n_valid:
        return "valid<req<N"
    if request == n_valid:
        return "req=valid"
    if request == 1:
        return "req=1"
    return "1<req<valid"


def grid_branch(a, b, request, remove_invalid):
    """Which data-dependent branch of the grid method the input addresses (own
    discretisation, for the evidence histogram only; never used for a verdict)."""
    bad = invalid(a) | invalid(b)
    n = a.shape[0]
    nv = n - int(bad.sum())
    if 0 < request < nv:
        ad = np.asarray(a[~bad], dtype=float)
        bd = np.asarray(b[~bad], dtype=float)
        with np.errstate(all="ignore"):
            rx, ry = ad.max() - ad.min(), bd.max() - bd.min()
            if not (np.isfinite(rx) and np.isfinite(ry) and rx > 0 and ry > 0):
                return "degenerate-axis"
            xi = np.floor((ad - ad.min()) / rx * (GRID - 1)).astype(np.int64)
            yi = np.floor((bd - bd.min()) / ry * (GRID - 1)).astype(np.int64)
        cells = np.unique(xi * GRID + yi).size
        if cells > request:
            return "cells>request(remove)"
        if cells < request:
            return "cells<request(add)"
        return "cells=request"
    if not remove_invalid and (request or n) > nv:
        return "pad-with-invalid" if (request or n) <= n else "pad-beyond-data"
    return "keep-all-valid"


# ------------------------------------------------------------------------ defect models
MSG_EMPTY = "'a' cannot be empty unless no samples are taken"
MSG_LARGER = "Cannot take a larger sample than population when 'replace=False'"
MSG_OOB = "Out of bounds on buffer access (axis {})"
MSG_VIEW = "To change to a dtype of a different size, the last axis must be contiguous"


def _axis_cells(v):
    """Grid index of every valid event exactly as the built code computes it, and the cause
    of an index outside the grid.

    `norm` yields nan where it divides 0/0 (zero range) or inf/inf (overflowing range); the
    cast of nan to uint32 is undefined behaviour.  With the numpy build of this sandbox
    (x86-64) the vectorised part of the cast loop gives 2**31 and the scalar remainder
    (the last n mod 4 float64 items) gives 0, so a constant axis with 2 or 3 valid events
    does *not* raise.  The model therefore performs the very same cast instead of assuming
    a value."""
    with np.errstate(all="ignore"), warnings.catch_warnings():
        warnings.simplefilter("ignore")
        rmin = v.min()
        rptp = v.max() - rmin
        cell = np.array((v - rmin) / rptp * (GRID - 1), dtype=np.uint32)
    oob = cell >= GRID
    if rptp == 0:
        cause = M_ZERO
    elif not np.isfinite(rptp):
        cause = M_OVER
    else:
        cause = None
    return oob, cause


def predict_grid_defect(a, b, request, remove_invalid, cached=True):
    """Prediction of the built ``downsample_grid`` for the known defects.

    Returns None (no known defect is triggered by this input) or
    (mechanism, exception type name, exception text).
    """
    a = np.asarray(a)
    b = np.asarray(b)
    for v in (a, b):
        # the memoising decorator hashes `arg.view(np.uint8)` before anything is computed;
        # numpy refuses that view for a strided array with items wider than a byte
        # (fixed in /repo by af9c53e: the prediction is disabled; if the defect returns it is
        # reported as an untagged violation)
        if False and cached and v.dtype.itemsize != 1 and not v.flags.c_contiguous:
            return (M_NONCONTIG, "ValueError", MSG_VIEW)
    n = int(a.shape[0])
    bad = invalid(a) | invalid(b)
    n_bad = int(bad.sum())
    nv = n - n_bad
    if 0 < request < nv:
        # D08 & co: `norm` divides by the range of the axis.  A zero range gives 0/0 = nan
        # for every event, a range that overflows gives inf/inf = nan for some; the cast
        # to uint32 of nan (normally) leaves the 300x300 grid and the bounds check of the
        # first such event raises, naming the last offending axis.
        ox, cx = _axis_cells(a[~bad])
        oy, cy = _axis_cells(b[~bad])
        hit = np.flatnonzero(ox | oy)
        if hit.size == 0:
            return None
        i = hit[0]
        if oy[i]:
            return (cy, "IndexError", MSG_OOB.format(1)) if cy else None
        return (cx, "IndexError", MSG_OOB.format(0)) if cx else None
    if not remove_invalid and request > n:
        # D07: the padding step wants request - #valid invalid events but only n_bad exist.
        return (M_PAD, "ValueError", MSG_LARGER if n_bad else MSG_EMPTY)
    return None


def match_defect(pred, exc):
    """Mechanism key if the observed exception equals the prediction, else None."""
    if pred is None or exc is None:
        return None
    mech, tname, text = pred
    if type(exc).__name__ == tname and str(exc) == text:
        return mech
    return None
