"""C12 reference model, part 1: the statistics and the text export, written from their
definitions.  Nothing in here imports dclab.

"The selected events" are handed in as a boolean array `sel` over the events of the dataset
(all True when filtering is disabled).  All statistics of a feature are defined on the
*finite* selected values of that feature (nan and +-inf are purged per feature).

Definitions used (assumptions of the check, see work/c12.py):
* Mean    arithmetic mean
* Median  middle order statistic (mean of the two middle ones for an even count)
* SD      population standard deviation, sqrt(mean((v - mean)^2))
* Mode    the values are binned with the Freedman-Diaconis width  w = 2*IQR / n^(1/3)
          (bin k collects the values with round-half-even(v / w) == k, reported position
          k*w + w/2); the mode is the position of a bin with the maximal count.  When several
          bins share the maximal count every one of them is accepted.  IQR == 0 -> nan.
* Events  number of selected events;  %-gated  100 * selected / all;  Flow rate  the
          configured value of [setup] "flow rate", nan when it is not set.
A feature statistic without any finite selected value is nan.
"""
import math

import numpy as np

FEATURE_METHODS = ("Mean", "Median", "Mode", "SD")
DATASET_METHODS = ("Events", "%-gated", "Flow rate")
ALL_METHODS = DATASET_METHODS + FEATURE_METHODS


def invalid(a):
    a = np.asarray(a)
    if a.dtype.kind in "iub":
        return np.zeros(a.shape, dtype=bool)
    return np.isnan(a) | np.isinf(a)


def finite_selected(col, sel):
    v = np.asarray(col)[np.asarray(sel, dtype=bool)]
    return np.asarray(v[~invalid(v)], dtype=np.float64)


def mean(v):
    return math.fsum(v.tolist()) / v.size


def median(v):
    s = np.sort(v)
    m = s.size // 2
    if s.size % 2:
        return float(s[m])
    return float(s[m - 1]) / 2 + float(s[m]) / 2


def sd(v):
    m = mean(v)
    return math.sqrt(math.fsum(((v - m) ** 2).tolist()) / v.size)


def mode_candidates(v):
    """-> (list of acceptable mode values, stable) or (None, stable) when the mode is nan.
    `stable` is False when a value lies so close to a rounding boundary of the binning that
    a one-ulp difference in the bin width decides its bin (then the mode is not judged)."""
    n = v.size
    q75, q25 = np.percentile(v, 75), np.percentile(v, 25)
    w = 2 * (q75 - q25) / n ** (1 / 3)
    if not np.isfinite(w):
        return None, False
    if w == 0:
        return None, True
    r = v / w
    k = np.round(r)
    frac = np.abs(np.abs(r - np.floor(r)) - 0.5)
    stable = bool(np.all(frac > 1e-9 * np.maximum(1.0, np.abs(r)))) and bool(np.all(np.isfinite(r)))
    ks, counts = np.unique(k, return_counts=True)
    best = ks[counts == counts.max()]
    return [float(b * w + w / 2) for b in best], stable


def feature_statistic(method, v):
    """Expected value of one feature statistic on the finite selected values `v`.
    -> (kind, wanted, atol) with kind "value" | "any_of" | "any_of_unstable" | "skip".
    atol is the absolute tolerance that goes with the magnitude of the data (a mean of large
    values of both signs cannot be demanded to 1e-9 relative to the mean itself)."""
    if v.size == 0:
        return "value", float("nan"), 0.0
    with np.errstate(all="ignore"):
        atol = 1e-11 * float(np.max(np.abs(v)))
        if not math.isfinite(atol):
            atol = 0.0
        if method == "Mean":
            return "value", mean(v), atol
        if method == "Median":
            return "value", median(v), atol
        if method == "SD":
            return "value", sd(v), atol
        if method == "Mode":
            cands, stable = mode_candidates(v)
            if cands is None:
                if stable:
                    return "value", float("nan"), 0.0
                return "skip", "mode: the Freedman-Diaconis width is not finite", 0.0
            return ("any_of" if stable else "any_of_unstable"), cands, atol
    raise KeyError(method)


def dataset_statistic(method, sel, flow_rate):
    sel = np.asarray(sel, dtype=bool)
    if method == "Events":
        return "value", int(sel.sum()), 0.0
    if method == "%-gated":
        if sel.size == 0:
            return "skip", "%-gated of a dataset without events is 0/0", 0.0
        return "value", 100.0 * int(sel.sum()) / sel.size, 0.0
    if method == "Flow rate":
        return "value", float("nan") if flow_rate is None else float(flow_rate), 0.0
    raise KeyError(method)


def expected_statistics(cols, sel, flow_rate, methods, features):
    """The documented layout of get_statistics: first the dataset-level methods in the given
    order, then per feature (given order) the feature methods in the given order.
    cols: dict feature -> 1d array (features that are not in the dataset are simply missing:
    their statistics are nan).  -> list of (method, feature|None, spec)"""
    out = []
    for m in methods:
        if m in DATASET_METHODS:
            out.append((m, None, dataset_statistic(m, sel, flow_rate)))
    for f in features:
        f = f.lower()
        for m in methods:
            if m in FEATURE_METHODS:
                if f in cols:
                    out.append((m, f, feature_statistic(m, finite_selected(cols[f], sel))))
                else:
                    out.append((m, f, ("value", float("nan"), 0.0)))
    return out


def close(a, b, rtol=1e-9, atol=0.0):
    """nan-aware scalar comparison (nan == nan, inf == inf of the same sign)."""
    try:
        a, b = float(a), float(b)
    except (TypeError, ValueError):
        return False
    if math.isnan(a) or math.isnan(b):
        return math.isnan(a) and math.isnan(b)
    if math.isinf(a) or math.isinf(b):
        return a == b
    return abs(a - b) <= atol + rtol * max(abs(a), abs(b))


def matches(spec, got, rtol=1e-9):
    kind, want, atol = spec
    if kind == "value":
        return close(got, want, rtol, atol=atol)
    if kind in ("any_of", "any_of_unstable"):
        return any(close(got, w, rtol, atol=atol) for w in want)
    return True


def same_array(a, b, rtol=0.0):
    """nan-aware array comparison: same shape, same nan/inf pattern, values equal
    (rtol = 0: bit-for-bit apart from the sign of zero)."""
    a, b = np.asarray(a), np.asarray(b)
    if a.shape != b.shape:
        return False
    if a.size == 0:
        return True
    if a.dtype.kind in "fc" or b.dtype.kind in "fc":
        a = a.astype(np.float64)
        b = b.astype(np.float64)
        na, nb = np.isnan(a), np.isnan(b)
        if not np.array_equal(na, nb):
            return False
        ia, ib = np.isinf(a), np.isinf(b)
        if not np.array_equal(ia, ib) or not np.array_equal(a[ia], b[ib]):
            return False
        ok = ~(na | ia)
        if rtol == 0:
            return bool(np.array_equal(a[ok], b[ok]))
        with np.errstate(all="ignore"):
            return bool(np.all(np.abs(a[ok] - b[ok])
                               <= rtol * np.maximum(np.abs(a[ok]), np.abs(b[ok]))))
    return bool(np.array_equal(a, b))


# ----------------------------------------------------------------------------- text export
def tsv_rows(cols, features, sel):
    """Data rows of the text export: the features sorted by (lower-case) name without
    duplicates, one row per selected event in event order, '%.10e', tab separated."""
    feats = sorted(set(f.lower() for f in features))
    sel = np.asarray(sel, dtype=bool)
    data = [np.asarray(cols[f])[sel] for f in feats]
    rows = []
    for i in range(int(sel.sum())):
        rows.append("\t".join("%.10e" % float(c[i]) for c in data))
    return feats, rows


def parse_tsv(text):
    """-> (feature header line items, label header, data rows as strings, comment lines)"""
    if text.startswith("﻿"):
        text = text[1:]
    lines = text.split("\n")
    if lines and lines[-1] == "":
        lines = lines[:-1]
    comments = [ln for ln in lines if ln.startswith("#")]
    rows = [ln for ln in lines if not ln.startswith("#")]
    names = comments[-2][2:].split("\t") if len(comments) >= 2 else None
    labels = comments[-1][2:].split("\t") if len(comments) >= 2 else None
    return names, labels, rows, comments
