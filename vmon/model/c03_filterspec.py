"""C03 reference model: stateless evaluation of the filter settings of a dataset.

Nothing in this file imports or calls dclab.  ``filter_spec`` is a pure function of

* the scalar feature data (``{feature: 1-D array}``),
* the filtering settings (a plain ``dict`` copy of ``ds.config["filtering"]``),
* the polygon filters referenced by the settings (``{id: (axes, points, inverted)}``),
* the manual exclusion array,

and returns what ``filter.box / polygon / invalid / all`` have to be according to the
statement of C03.  It has no memory: two calls with equal arguments return equal results,
whatever happened before (that is the point of the property).

Arithmetic
* ranges: ``lo <= v <= hi`` is decided on the exact real values of the stored numbers
  (float64 comparison after an *exact* widening of float16/float32/integers below 2**53;
  anything else goes through ``fractions.Fraction``).  NaN is never inside; +-inf is
  inside only when the bound on that side is the same infinity.
* polygons: even-odd crossing parity with all coordinates converted exactly
  (``float.as_integer_ratio``) to integers on one common power-of-two scale; int64 numpy
  arithmetic when every product provably fits, Python big integers otherwise.  Points that
  lie exactly on a closed edge segment are reported in an on-boundary mask (don't care by
  the statement), points inside the double-precision rounding band of a crossing abscissa
  in a separate ``near`` mask.  Non-finite points are not inside any polygon.
"""
from fractions import Fraction
import math

import numpy as np

DEFAULT_KEYS = ("remove invalid events", "enable filters", "limit events",
                "polygon filters", "hierarchy parent")

#: relative half-width (w.r.t. max |vertex x|) of the band around an exact crossing abscissa
#: inside which the double-precision evaluation of ``(xj-xi)*(y-yi)/(yj-yi)+xi`` may decide
#: differently from exact arithmetic (six roundings: < 11.1 * 2**-53 * M; see C15).
ABSCISSA_BAND_LOG2 = 48
_INT64_SAFE = 1 << 30      # |scaled coordinate| below this => every product below < 2**62


# ----------------------------------------------------------------------------- exact scalars
def _exact(v):
    """Exact value of a stored number: Fraction, or float('inf'/'-inf'/'nan')."""
    if isinstance(v, (bool, np.bool_)):
        return Fraction(int(v))
    if isinstance(v, (int, np.integer)):
        return Fraction(int(v))
    f = float(v)                      # exact for float16/32/64 scalars and Python floats
    if f != f or f in (math.inf, -math.inf):
        return f
    return Fraction(f)


def _le(a, b):
    """a <= b for exact values (Fractions or non-finite floats); NaN compares False."""
    if isinstance(a, float) and a != a:
        return False
    if isinstance(b, float) and b != b:
        return False
    return a <= b


def _widen(arr):
    """float64 array holding exactly the values of `arr`, or None if that is impossible."""
    arr = np.asarray(arr)
    if arr.dtype.kind == "f":
        if arr.dtype.itemsize <= 8:
            return arr.astype(np.float64)
        return None
    if arr.dtype.kind == "b":
        return arr.astype(np.float64)
    if arr.dtype.kind in "iu":
        if arr.size == 0:
            return arr.astype(np.float64)
        if arr.dtype.itemsize <= 4:
            return arr.astype(np.float64)
        amax = max(abs(int(arr.max())), abs(int(arr.min())))
        if amax <= (1 << 53):
            return arr.astype(np.float64)
    return None


def _bound_as_double(b):
    """The bound as a Python float if that conversion is exact, else None."""
    if isinstance(b, (bool, np.bool_)):
        return float(int(b))
    if isinstance(b, (int, np.integer)):
        b = int(b)
        if abs(b) <= (1 << 53):
            return float(b)
        return None
    if isinstance(b, (float, np.floating)):
        if isinstance(b, np.floating) and b.dtype.itemsize > 8:
            return None
        return float(b)
    return None


def bounds_sorted(lo, hi):
    """(lo, hi) with lo <= hi (reversed bounds are swapped)."""
    elo, ehi = _exact(lo), _exact(hi)
    if _le(ehi, elo) and not _le(elo, ehi):
        return hi, lo
    return lo, hi


def bounds_equal(lo, hi):
    elo, ehi = _exact(lo), _exact(hi)
    return _le(elo, ehi) and _le(ehi, elo)


def range_mask(arr, lo, hi):
    """lo <= arr <= hi on exact values, NaN -> False.  lo <= hi expected."""
    arr = np.asarray(arr)
    wide = _widen(arr)
    flo, fhi = _bound_as_double(lo), _bound_as_double(hi)
    if wide is not None and flo is not None and fhi is not None:
        with np.errstate(invalid="ignore"):
            return (np.float64(flo) <= wide) & (wide <= np.float64(fhi))
    elo, ehi = _exact(lo), _exact(hi)
    out = np.zeros(arr.shape[0], dtype=bool)
    for i, v in enumerate(arr.tolist() if arr.dtype.kind in "iub" else arr):
        ev = _exact(v)
        out[i] = _le(elo, ev) and _le(ev, ehi)
    return out


def finite_mask(arr):
    arr = np.asarray(arr)
    if arr.dtype.kind == "f":
        return np.isfinite(arr)
    return np.ones(arr.shape[0], dtype=bool)


# ----------------------------------------------------------------------------- polygons
def _scale_exact(*arrays):
    """Exact integers n with value = n / D for all given float sequences (finite)."""
    ratios = [[float(v).as_integer_ratio() for v in arr] for arr in arrays]
    D = 1
    for rr in ratios:
        for _n, d in rr:
            if d > D:
                D = d
    return [[n * (D // d) for n, d in rr] for rr in ratios], D


def evenodd_exact(px, py, verts):
    """Exact even-odd classification of the points (px[i], py[i]) against the closed polygon
    through `verts` ((L, 2) finite floats, implicitly closed).

    Returns dict of bool arrays of len(px):
      inside  crossing parity of the +x ray (half-open rule; only meaningful off-boundary)
      onb     point lies exactly on a closed edge segment (or equals a vertex)
      near    point is off the boundary, but within the rounding band of the crossing
              abscissa of an edge whose closed y-range contains it
      finite  both coordinates finite (non-finite points: inside = onb = near = False)
      path    "int64" or "bigint" (which arithmetic decided; evidence only)
    """
    px = np.asarray(px, dtype=np.float64)
    py = np.asarray(py, dtype=np.float64)
    verts = np.asarray(verts, dtype=np.float64).reshape(-1, 2)
    n = px.shape[0]
    fin = np.isfinite(px) & np.isfinite(py)
    inside = np.zeros(n, dtype=bool)
    onb = np.zeros(n, dtype=bool)
    near = np.zeros(n, dtype=bool)
    if not np.all(np.isfinite(verts)):
        raise ValueError("polygon vertices must be finite")
    sel = np.flatnonzero(fin)
    if len(verts) == 0 or sel.size == 0:
        return {"inside": inside, "onb": onb, "near": near, "finite": fin, "path": "none"}
    (vx, vy, qx, qy), _D = _scale_exact(verts[:, 0], verts[:, 1], px[sel], py[sel])
    big = max(max(abs(v) for v in vx), max(abs(v) for v in vy),
              max(abs(v) for v in qx), max(abs(v) for v in qy))
    if big < _INT64_SAFE:
        dt, path = np.int64, "int64"
    else:
        dt, path = object, "bigint"
    X = np.array(qx, dtype=dt)
    Y = np.array(qy, dtype=dt)
    Mx = max(abs(v) for v in vx)
    c = np.zeros(sel.size, dtype=bool)
    ob = np.zeros(sel.size, dtype=bool)
    nr = np.zeros(sel.size, dtype=bool)
    L = len(vx)
    for i in range(L):
        j = i - 1                                   # previous vertex, cyclic
        xi, yi, xj, yj = vx[i], vy[i], vx[j], vy[j]
        dy = yj - yi
        dx = xj - xi
        lhs = (X - xi) * dy
        rhs = (Y - yi) * dx
        ylo, yhi = (yi, yj) if yi <= yj else (yj, yi)
        xlo, xhi = (xi, xj) if xi <= xj else (xj, xi)
        in_y = _b(Y >= ylo) & _b(Y <= yhi)
        on_line = _b(lhs == rhs)
        ob |= on_line & in_y & _b(X >= xlo) & _b(X <= xhi)
        if dy != 0:
            straddle = _b(Y >= ylo) & _b(Y < yhi)
            right = _b(lhs < rhs) if dy > 0 else _b(lhs > rhs)
            c ^= straddle & right
            # |x - Xcross| <= 2**-48 Mx  <=>  |lhs - rhs| * 2**48 <= Mx * |dy|
            thr = (Mx * abs(dy)) >> ABSCISSA_BAND_LOG2
            diff = lhs - rhs
            nr |= in_y & _b(diff <= thr) & _b(diff >= -thr)
    inside[sel] = c
    onb[sel] = ob
    near[sel] = nr & ~ob
    return {"inside": inside, "onb": onb, "near": near, "finite": fin, "path": path}


def _b(a):
    """bool ndarray from a comparison result (object arrays give object results)."""
    return np.asarray(a).astype(bool)


def evenodd_fraction(x, y, verts):
    """Single point, Fractions only, an independently written second definition used for
    self-checks (edges taken in forward order, vertex classes "strictly above" / "not
    above" the horizontal line through the point, crossing abscissa as a Fraction).  Returns (inside, on_boundary)."""
    X, Y = Fraction(float(x)), Fraction(float(y))
    P = [(Fraction(float(a)), Fraction(float(b))) for a, b in verts]
    L = len(P)
    inside = False
    on = False
    for k in range(L):
        (ax, ay), (bx, by) = P[k], P[(k + 1) % L]
        cross = (bx - ax) * (Y - ay) - (by - ay) * (X - ax)
        if cross == 0 and min(ax, bx) <= X <= max(ax, bx) and min(ay, by) <= Y <= max(ay, by):
            on = True
        a_above = ay > Y
        b_above = by > Y
        if a_above != b_above:
            # abscissa of the crossing with the horizontal line through the point
            xc = ax + (Y - ay) * (bx - ax) / (by - ay)
            if xc > X:
                inside = not inside
    return inside, on


# ----------------------------------------------------------------------------- the spec
class Undefined(Exception):
    """The settings are outside the domain of the property statement (don't care)."""


def active_ranges(cfg, features):
    """[(feature, lo, hi)] of the ranges that are in force: both keys present, feature is a
    scalar feature of the dataset, lo != hi; bounds sorted.  Raises Undefined for
    half-defined ranges and NaN bounds."""
    out = []
    seen = set()
    for key in cfg:
        if not isinstance(key, str) or not (key.endswith(" min") or key.endswith(" max")):
            continue
        feat = key[:-4]
        if feat in seen:
            continue
        seen.add(feat)
        kmin, kmax = feat + " min", feat + " max"
        if (kmin in cfg) != (kmax in cfg):
            if feat in features:
                raise Undefined(f"half-defined range for {feat}")
            continue
        lo, hi = cfg[kmin], cfg[kmax]
        for b in (lo, hi):
            e = _exact(b)
            if isinstance(e, float) and e != e:
                raise Undefined(f"NaN bound for {feat}")
        if feat not in features:
            continue
        if bounds_equal(lo, hi):
            continue
        lo, hi = bounds_sorted(lo, hi)
        out.append((feat, lo, hi))
    out.sort(key=lambda t: t[0])
    return out


def filter_spec(data, cfg, polygons, manual, poly_eval=None):
    """Stateless evaluation of the settings.

    data      {feature: 1-D array} - every scalar feature of the dataset
    cfg       plain dict copy of the 'filtering' section
    polygons  {id: {"axes": (fx, fy), "points": (L, 2) array, "inverted": bool}}
    manual    bool array (False = excluded by the user)
    poly_eval optional memoising replacement for ``evenodd_exact`` (same signature)

    Returns a dict with bool arrays box, polygon, invalid (exact values where defined),
    poly_dc (events whose polygon value is a don't care), conj_lo / conj_hi (the conjunction
    with don't-care events counted as excluded / included), all_lo / all_hi (what `all` has
    to lie between when no limit cuts; all-true when filters are disabled), and
    enabled, limit, ranges, n_poly.
    """
    pe = poly_eval or evenodd_exact
    feats = sorted(data)
    if not feats:
        raise Undefined("no scalar feature")
    n = len(data[feats[0]])
    manual = np.asarray(manual)
    if manual.dtype != bool or manual.shape != (n,):
        raise Undefined("manual is not a boolean array of the dataset's size")
    for k in ("remove invalid events", "enable filters", "limit events", "polygon filters"):
        if k not in cfg:
            raise Undefined(f"mandatory setting {k!r} missing")
    # ranges
    ranges = active_ranges(cfg, set(feats))
    box = np.ones(n, dtype=bool)
    per_range = {}
    for feat, lo, hi in ranges:
        m = range_mask(data[feat], lo, hi)
        per_range[feat] = m
        box &= m
    # invalid
    invalid = np.ones(n, dtype=bool)
    if cfg["remove invalid events"]:
        for feat in feats:
            invalid &= finite_mask(data[feat])
    # polygons
    pol_lo = np.ones(n, dtype=bool)
    pol_hi = np.ones(n, dtype=bool)
    pids = list(cfg["polygon filters"])
    paths = []
    for pid in pids:
        if pid not in polygons:
            raise Undefined(f"polygon filter {pid} is not registered")
        pf = polygons[pid]
        fx, fy = pf["axes"]
        if fx not in data or fy not in data:
            raise Undefined(f"polygon filter {pid} uses a feature the dataset does not have")
        pts = np.asarray(pf["points"], dtype=np.float64)
        if pts.ndim != 2 or pts.shape[1] != 2 or pts.shape[0] < 3:
            raise Undefined(f"polygon filter {pid} has fewer than 3 vertices")
        r = pe(data[fx], data[fy], pts)
        paths.append(r["path"])
        val = r["inside"] ^ bool(pf["inverted"])
        dc = r["onb"] | r["near"]
        pol_lo &= np.where(dc, False, val)
        pol_hi &= np.where(dc, True, val)
    poly_dc = pol_lo != pol_hi
    rest = box & invalid & manual
    conj_lo = rest & pol_lo
    conj_hi = rest & pol_hi
    enabled = bool(cfg["enable filters"])
    limit = int(cfg["limit events"])
    if enabled:
        all_lo, all_hi = conj_lo, conj_hi
    else:
        all_lo = all_hi = np.ones(n, dtype=bool)
    return {"n": n, "box": box, "per_range": per_range, "invalid": invalid, "manual": manual,
            "polygon": pol_lo, "polygon_hi": pol_hi, "poly_dc": poly_dc,
            "conj_lo": conj_lo, "conj_hi": conj_hi, "all_lo": all_lo, "all_hi": all_hi,
            "enabled": enabled, "limit": limit if (enabled and limit > 0) else 0,
            "ranges": ranges, "n_poly": len(pids), "paths": paths}


def judge(observed, spec):
    """Compare the observed arrays {"all","box","polygon","invalid"} with the spec.
    Returns {monitor: (ok, detail)}; `detail` lists the first differing events."""
    res = {}

    def diff(name, got, lo, hi):
        got = np.asarray(got)
        if got.dtype != bool or got.shape != lo.shape:
            return False, {"what": "not a boolean array of the dataset's size",
                           "dtype": str(got.dtype), "shape": list(got.shape)}
        bad = (lo & ~got) | (got & ~hi)
        if bad.any():
            idx = np.flatnonzero(bad)
            return False, {"n_wrong": int(idx.size), "first_wrong_events": idx[:10].tolist(),
                           "got": got[idx[:10]].tolist(), "expected": lo[idx[:10]].tolist()}
        return True, None

    res["box_equals_spec"] = diff("box", observed["box"], spec["box"], spec["box"])
    res["invalid_equals_spec"] = diff("invalid", observed["invalid"], spec["invalid"],
                                      spec["invalid"])
    res["polygon_equals_spec"] = diff("polygon", observed["polygon"], spec["polygon"],
                                      spec["polygon_hi"])
    allv = np.asarray(observed["all"])
    if spec["limit"] == 0:
        res["all_equals_spec"] = diff("all", allv, spec["all_lo"], spec["all_hi"])
    else:
        lim = spec["limit"]
        ok_shape = allv.dtype == bool and allv.shape == spec["all_hi"].shape
        if not ok_shape:
            res["limit_subset"] = (False, {"what": "not a boolean array of the dataset's size"})
        else:
            extra = allv & ~spec["all_hi"]
            ok = not extra.any()
            res["limit_subset"] = (ok, None if ok else {
                "events_kept_that_do_not_qualify": np.flatnonzero(extra)[:10].tolist()})
            nlo = min(lim, int(spec["all_lo"].sum()))
            nhi = min(lim, int(spec["all_hi"].sum()))
            got = int(allv.sum())
            ok = nlo <= got <= nhi
            res["limit_count"] = (ok, None if ok else {
                "kept": got, "limit": lim, "qualifying_min": int(spec["all_lo"].sum()),
                "qualifying_max": int(spec["all_hi"].sum())})
            if lim >= int(spec["all_hi"].sum()):
                # nothing to cut: the plain equality applies
                res["all_equals_spec"] = diff("all", allv, spec["all_lo"], spec["all_hi"])
    return res
