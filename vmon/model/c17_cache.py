"""Reference models and executable defect models for C17 (cached == fresh).

Nothing in this module imports or calls dclab.

Oracle helpers
* ``vdigest`` / ``same_value``: total, NaN-aware structural comparison of results
  (dtype, shape and element values of arrays; tuples/lists element-wise).
* ``hashfile_expected``: independent digest of the documented prefix of a byte string.
* ``typed_key``: what "the same arguments" means for a memoised call: per argument a type
  tag, for arrays dtype + shape + C-order bytes, nested containers delimited.

Executable defect models (predict the *buggy* output, used only for tagging)
* ``UndelimitedFifoModel`` + ``undelimited_stream``: the memo key is the undelimited
  concatenation of raw array bytes and ``str()`` of everything else (lists flattened);
  two calls with different typed keys but the same stream share one entry ->
  the later call receives the value computed for the earlier one (D09).
* ``key_exception``: computing that key fails for arrays that are not C-contiguous
  (and for 0-d arrays of itemsize > 1) with ``ValueError`` although the function itself
  accepts them.
* ``hashfile_positional_typeerror``: D22.
* ``AliasArrayModel``: D13, the cached array itself (or a basic-slice view of it) is handed
  out; writes through it are visible to later reads.
* ``ContourDequeModel``: the bounded contour deques hand out the stored array object.
"""
import hashlib
from collections import deque

import numpy as np


# ------------------------------------------------------------------ value comparison
def vdigest(obj):
    """Digest of a result value (arrays: dtype, shape, bytes; containers recursive)."""
    h = hashlib.sha1()
    _vd(obj, h)
    return h.hexdigest()[:20]


def _vd(obj, h):
    if isinstance(obj, np.ndarray):
        h.update(b"<A")
        h.update(obj.dtype.str.encode())
        h.update(repr(obj.shape).encode())
        if obj.dtype.kind == "O":
            h.update(repr(obj.tolist()).encode())
        else:
            a = np.ascontiguousarray(obj)
            if a.dtype.kind in "fc":
                # all NaNs are the same value
                a = np.where(np.isnan(a), np.array(np.nan, dtype=a.dtype), a)
                a = np.ascontiguousarray(a)
            h.update(a.tobytes())
        h.update(b">")
    elif isinstance(obj, (tuple, list)):
        h.update(b"<T" if isinstance(obj, tuple) else b"<L")
        h.update(str(len(obj)).encode())
        for o in obj:
            _vd(o, h)
        h.update(b">")
    elif isinstance(obj, dict):
        h.update(b"<D")
        for k in sorted(obj, key=repr):
            _vd(k, h)
            _vd(obj[k], h)
        h.update(b">")
    else:
        h.update(f"<{type(obj).__name__}:{obj!r}>".encode())


def same_value(a, b):
    """Total structural equality (NaN == NaN, dtype and shape must agree)."""
    if isinstance(a, np.ndarray) or isinstance(b, np.ndarray):
        if not (isinstance(a, np.ndarray) and isinstance(b, np.ndarray)):
            return False
        if a.dtype != b.dtype or a.shape != b.shape:
            return False
        if a.dtype.kind in "fc":
            return bool(np.array_equal(a, b, equal_nan=True))
        if a.dtype.kind == "O":
            return a.tolist() == b.tolist()
        return bool(np.array_equal(a, b))
    if isinstance(a, (tuple, list)) or isinstance(b, (tuple, list)):
        if type(a) is not type(b) or len(a) != len(b):
            return False
        return all(same_value(x, y) for x, y in zip(a, b))
    if type(a) is not type(b):
        return False
    if isinstance(a, float) and a != a and b != b:
        return True
    try:
        return bool(a == b)
    except Exception:
        return False


def outcome_equal(real, fresh):
    """Outcomes are ("ok", value) or ("exc", exception).  Equal when both return equal
    values or both raise the same exception type."""
    if real[0] != fresh[0]:
        return False
    if real[0] == "ok":
        return same_value(real[1], fresh[1])
    return type(real[1]) is type(fresh[1])


def describe_outcome(o):
    if o[0] == "ok":
        return {"returned": o[1]}
    return {"raised": repr(o[1])[:300]}


# ------------------------------------------------------------------ memo key models
def typed_key(ident, args, kwargs):
    """Canonical identity of a call: function identity plus delimited, type-tagged
    arguments.  Two calls with the same typed key have 'the same arguments'."""
    return (tuple(ident), tuple(_typed(a) for a in args),
            tuple((k, _typed(kwargs[k])) for k in sorted(kwargs)))


def _typed(arg):
    if isinstance(arg, np.ndarray):
        if arg.dtype.kind == "O":
            return ("ndarray", "O", arg.shape, repr(arg.tolist()))
        return ("ndarray", arg.dtype.str, arg.shape,
                hashlib.sha1(np.ascontiguousarray(arg).tobytes()).hexdigest())
    if isinstance(arg, (list, tuple)):
        return (type(arg).__name__, tuple(_typed(a) for a in arg))
    if isinstance(arg, dict):
        return ("dict", tuple((repr(k), _typed(v)) for k, v in sorted(arg.items(), key=repr)))
    return (type(arg).__name__, repr(arg))


def _flat_arrays(arg):
    if isinstance(arg, np.ndarray):
        yield arg
    elif isinstance(arg, list):
        for a in arg:
            yield from _flat_arrays(a)


def key_exception(args, kwargs):
    """Defect model: exception type raised while *computing the memo key* (before the
    function body runs) or None.  ``arr.view(uint8)`` / ``md5.update`` need C-contiguous
    arrays of >= 1 dimension (0-d is accepted for one-byte items only)."""
    seq = list(args) + [kwargs[k] for k in sorted(kwargs)]
    for arg in seq:
        for a in _flat_arrays(arg):
            if a.dtype.kind == "O":
                return TypeError
            if a.ndim == 0:
                if a.dtype.itemsize != 1:
                    return ValueError
            elif not a.flags.c_contiguous:
                return ValueError
    return None


def undelimited_stream(ident, args, kwargs):
    """Defect model of the memo key material: raw bytes of arrays, ``str()`` of anything
    else, lists flattened, nothing in between; keyword names sorted; then the function
    identity strings.  Only defined when ``key_exception`` is None."""
    out = []

    def upd(arg):
        if isinstance(arg, np.ndarray):
            out.append(arg.tobytes())
        elif isinstance(arg, list):
            for a in arg:
                upd(a)
        else:
            out.append(str(arg).encode("utf-8"))
    for a in args:
        upd(a)
    for k in sorted(kwargs):
        upd(k)
        upd(kwargs[k])
    for s in ident:
        upd(s)
    return hashlib.sha1(b"".join(out)).hexdigest()


class UndelimitedFifoModel:
    """FIFO store of at most ``max_size`` entries keyed by ``undelimited_stream``.

    ``predict(stream, typed)`` -> ("miss", None) | ("hit", rec) | ("collision", rec)
    where rec = {"typed":…, "digest":…, "spec":…} describes the call that inserted the
    entry.  ``commit`` applies the state change of the call once the fresh outcome is
    known (nothing is stored when the function raised)."""

    def __init__(self, max_size=100):
        self.max_size = max_size
        self.store = {}
        self.order = []
        self.evictions = 0

    def clear(self):
        self.store = {}
        self.order = []

    def predict(self, stream, typed):
        rec = self.store.get(stream)
        if rec is None:
            return "miss", None
        if rec["typed"] == typed:
            return "hit", rec
        return "collision", rec

    def commit(self, stream, typed, fresh_outcome, spec=None):
        if stream in self.store:
            return
        if fresh_outcome[0] != "ok":
            return
        self.store[stream] = {"typed": typed, "digest": vdigest(fresh_outcome[1]),
                              "spec": spec}
        self.order.append(stream)
        if len(self.order) > self.max_size:
            old = self.order.pop(0)
            self.store.pop(old)
            self.evictions += 1


# ------------------------------------------------------------------ hashfile
def hashfile_expected(data, blocksize=65536, count=0, algo="md5"):
    """Digest of the first ``count`` blocks of ``blocksize`` bytes (all when count is 0).
    Defined for blocksize >= 1, count >= 0."""
    assert blocksize >= 1 and count >= 0
    if count:
        data = data[:blocksize * count]
    return hashlib.new(algo, data).hexdigest()


def hashfile_positional_typeerror(n_extra_positional, file_exists):
    """Defect model D22: the caching wrapper passes ``path`` by keyword, so any further
    positional argument collides with it -> TypeError (existing files only; for a missing
    file the wrapper calls the function directly)."""
    return TypeError if (file_exists and n_extra_positional >= 1) else None


def hashfile_fname_keyword_typeerror(n_positional, keyword_names):
    """Defect model: the caching wrapper's first parameter is called ``path`` while the
    function's is ``fname``; passing the file by its documented keyword -> TypeError
    (missing positional argument), whether or not the file exists."""
    return TypeError if (n_positional == 0 and "fname" in keyword_names) else None


# ------------------------------------------------------------------ aliasing models
ALIASING_FORMS = ("full", "asarray", "array_nocopy", "dunder_array", "basic_slice")


class AliasArrayModel:
    """Defect model D13 for one scalar feature object.

    ``expected`` is the value a fresh computation returns.  ``shared`` models the object's
    private cache under the defect: it is filled at the first access (for hierarchy
    children from whatever the parent's cache holds at that moment) and read forms in
    ALIASING_FORMS hand out (a view of) it.  ``aliases`` False models an object whose cache
    is never read back."""

    def __init__(self, expected, aliases=True, parent=None, select=None):
        self.expected = np.array(expected, copy=True)
        self.shared = None
        self.aliases = aliases
        self.parent = parent
        self.select = select
        self.writes = 0

    def touch(self):
        """The object's cache is filled now if it is still empty."""
        if self.shared is None:
            if self.parent is not None and self.aliases:
                self.parent.touch()
                self.shared = np.array(self.select(self.parent.shared), copy=True)
            else:
                self.shared = np.array(self.expected, copy=True)
        return self

    def handle(self, form, index):
        """Model counterpart of the array handed out by a read."""
        self.touch()
        if form in ("full", "asarray", "array_nocopy", "dunder_array"):
            return self.shared if self.aliases else self.shared.copy()
        if form == "basic_slice":
            return self.shared[index] if self.aliases else self.shared[index].copy()
        return None     # copies: writes cannot reach the cache


def apply_write(arr, wop):
    """Apply a write operation description to an array in place (used both for the real
    array and for the model handle).  wop = [kind, ...]"""
    kind = wop[0]
    if kind == "set_item":
        arr[wop[1] % len(arr)] = wop[2]
    elif kind == "set_all":
        arr[...] = wop[1]
    elif kind == "imul":
        arr *= wop[1]
    elif kind == "iadd":
        arr += wop[1]
    elif kind == "fill":
        arr.fill(wop[1])
    elif kind == "reverse":
        arr[...] = arr[::-1].copy()
    elif kind == "sort":
        arr.sort()
    else:
        raise ValueError(kind)


class ContourDequeModel:
    """Defect model of the lazily cached contour list: two bounded deques (contours,
    indices); a lookup finds the *first* entry with an equal index and hands out the
    stored array object itself, then appends (index, object) again."""

    def __init__(self, expected, max_events):
        self.expected = expected          # callable idx -> fresh contour (copy)
        self.contours = deque(maxlen=max_events or None)
        self.indices = deque(maxlen=max_events or None)
        self.hits = 0
        self.misses = 0

    def get(self, idx):
        """Returns the model array object for integer idx (shared with earlier
        hand-outs when the defect applies)."""
        try:
            q = self.indices.index(idx)
        except ValueError:
            cont = np.array(self.expected(idx), copy=True)
            self.misses += 1
        else:
            cont = self.contours[q]
            self.hits += 1
        self.contours.append(cont)
        self.indices.append(idx)
        return cont
