"""Reference model for C05: Young's modulus = scaled linear interpolation of a look-up table.

Nothing in this file imports or calls dclab.  Everything the property statement needs is
written out here:

* own parser of the ``lut_*.txt`` file format (JSON metadata block + tab separated header
  + numeric rows),
* the documented scaling laws  A -> A (L/L0)^2,  V -> V (L/L0)^3,
  E -> E (Q/Q0)(eta/eta0)(L0/L)^3   (docs/sec_av_emodulus: characteristic length L and
  stress sigma = eta Q / L^3, Mietke 2015),
* the pixelation correction of the deformation (Herold 2017 for area, the fit of
  scripts/pixelation_correction.py for volume) with the constants written out below,
* the viscosity models of the documentation (Herold 2017, Bueyuekurganci 2022 / Reichel
  2023, Kestin 1978) with the constants written out below,
* the piecewise-linear interpolant: both axes divided by their LUT maxima, Delaunay
  triangulation (scipy.spatial / Qhull, trusted), own affine interpolant per triangle,
  own convex hull (monotone chain), own point-in-triangle verification,
* the ambiguous-quad rule: adjacent triangle pairs whose four corners are cocircular to
  within EPS_CIRC may legitimately be triangulated with either diagonal under 1-ulp
  differences of the coordinates; both interpolants are accepted there,
* the hull band: points closer than BAND (normalised units) to the boundary of the
  support are not judged for NaN-ness.
"""
import json
import math

import numpy as np
from scipy.spatial import Delaunay

# ------------------------------------------------------------------ tolerances
#: relative tolerance of the differential oracle
RTOL = 1e-9
#: band around the hull (normalised coordinates, both axes in [0, 1]) in which
#: NaN-ness is not judged
BAND = 1e-9
#: |normalised in-circle determinant| below which a pair of adjacent triangles is
#: "ambiguous" (either diagonal accepted)
EPS_CIRC = 1e-9
#: events closer than EDGE_BAND to an edge of their triangle may be located in either
#: adjacent triangle by scipy's walk (its tolerance is 100 eps in barycentric units)
EDGE_BAND = 1e-12
#: scipy's barycentric coordinates carry a rounding error of about eps * |x| / height,
#: which exceeds its own containment tolerance for triangles thinner than ~1e-2; a point
#: ON an edge / vertex (closer than EDGE_BAND) can then be rejected by both adjacent
#: triangles and come back as NaN (observed about once per 1e5 such points) - a property
#: of the trusted library, not judged
#: a position error of this size (normalised coordinates) is never judged; it enters the
#: value tolerance through the gradient of the local interpolant (sliver triangles of
#: height 1e-8 exist in the shipped tables)
POS_DELTA = 2e-14

# --------------------------------------------------------- documented constants
#: pixelation correction deform(area_um): offset, (amplitude, decay [um^2]) x 3, reference
#: pixel size 0.34 um; the decay lengths scale with (px/0.34)^2   (Herold 2017)
PX_REF = 0.34
PXCORR_AREA = (0.0012, ((0.020, 7.1), (0.010, 38.6), (0.005, 296.0)), 2)
#: pixelation correction deform(volume): decay volumes scale with (px/0.34)^3
PXCORR_VOLUME = (0.0013, ((0.0172, 40.0), (0.0070, 450.0), (0.0032, 6040.0)), 3)

#: medium aliases (documentation: dclab.features.emodulus.viscosity.SAME_MEDIA); lower
#: case spellings are accepted as well
MEDIA = {
    "0.49% MC-PBS": ("0.49% MC-PBS", "0.5% MC-PBS", "0.50% MC-PBS", "CellCarrier"),
    "0.59% MC-PBS": ("0.59% MC-PBS", "0.6% MC-PBS", "0.60% MC-PBS", "CellCarrier B",
                     "CellCarrierB"),
    "0.83% MC-PBS": ("0.83% MC-PBS", "0.8% MC-PBS", "0.80% MC-PBS"),
    "water": ("water",),
}
ALIASES = {}
for _k, _v in MEDIA.items():
    for _a in _v:
        ALIASES[_a] = _k
        ALIASES[_a.lower()] = _k

#: Herold 2017 (arXiv:1704.00572): eta = K * gammadot^(n-1) * (T/T0)^-0.866 [Pa s],
#: gammadot = 8 Q / L^3 * (0.6771 + 0.2121 / n) in SI units
HEROLD = {"0.49% MC-PBS": (0.179, 0.677, 23.2), "0.59% MC-PBS": (0.360, 0.634, 23.6)}
#: Bueyuekurganci 2022 / Reichel 2023: n = alpha T + beta, K = A exp(lambda / T) (T in K),
#: gammadot = 8 Q / L^3 * (0.6671 + 0.2121 / n)   (Q in uL/s = mm^3/s, L in mm)
BUYUK_ALPHA = 0.00223
BUYUK_LAMBDA = 3379.7
BUYUK = {"0.49% MC-PBS": (2.30e-6, -0.0056), "0.59% MC-PBS": (5.70e-6, -0.0744),
         "0.83% MC-PBS": (16.52e-6, -0.1455)}
VISC_MODELS = ("herold-2017", "herold-2017-fallback", "buyukurganci-2022", "kestin-1978")


class Undefined(Exception):
    """The documentation defines no value for this combination (don't care)."""


# -------------------------------------------------------------------- viscosity
def viscosity(medium, model, channel_width, flow_rate, temperature):
    """Viscosity [mPa s] of a known medium; `temperature` float or ndarray (deg C)."""
    if not isinstance(medium, str) or medium not in ALIASES:
        raise Undefined(f"unknown medium {medium!r}")
    med = ALIASES[medium]
    temp = np.asarray(temperature, dtype=np.float64)
    if med == "water":
        # Kestin 1978, eq. 15; the model name is ignored for water
        d = 20.0 - temp
        expo = d / (temp + 96.0) * (1.2364 - 1.37e-3 * d + 5.7e-6 * d * d)
        eta = 1.002 * np.power(10.0, expo)
    elif model in ("herold-2017", "herold-2017-fallback"):
        if med not in HEROLD:
            raise Undefined(f"{med} has no herold-2017 model")
        kk, nn, t0 = HEROLD[med]
        q_si = flow_rate * 1e-9           # uL/s -> m^3/s
        l_si = channel_width * 1e-6       # um -> m
        gdot = 8.0 * q_si / l_si ** 3 * (0.6771 + 0.2121 / nn)
        eta = kk * gdot ** (nn - 1.0) * np.power(temp / t0, -0.866) * 1e3
    elif model == "buyukurganci-2022":
        aa, beta = BUYUK[med]
        kelvin = temp + 273.15
        nn = BUYUK_ALPHA * kelvin + beta
        kk = aa * np.exp(BUYUK_LAMBDA / kelvin)
        l_mm = channel_width * 1e-3
        gdot = 8.0 * flow_rate / l_mm ** 3 * (0.6671 + 0.2121 / nn)
        eta = kk * np.power(gdot, nn - 1.0) * 1e3
    else:
        raise Undefined(f"no model {model!r} for {med}")
    return eta


# ----------------------------------------------------------- pixelation formula
def pixelation_delta(featx, x, px_um):
    """Amount by which the measured deformation over-estimates; to be subtracted."""
    offs, terms, power = PXCORR_AREA if featx == "area_um" else PXCORR_VOLUME
    x = np.asarray(x, dtype=np.float64)
    shrink = (PX_REF / px_um) ** power
    out = np.full(x.shape, offs, dtype=np.float64)
    for amp, decay in terms:
        out = out + amp * np.exp(-(x * shrink) / decay)
    return out


# ----------------------------------------------------------------------- parser
def parse_lut_text(text):
    """Parse the mtext format. Returns (data (N, ncol) float64, meta dict)."""
    lines = text.splitlines()
    meta_lines = []
    in_meta = False
    header = None
    rows = []
    for ln in lines:
        s = ln.strip()
        if not s:
            continue
        if s.startswith("#"):
            body = s[1:].strip()
            if body.startswith("BEGIN METADATA"):
                in_meta = True
            elif body.startswith("END METADATA"):
                in_meta = False
            elif in_meta:
                meta_lines.append(body)
            elif not rows:
                header = body
            continue
        rows.append([float(tok) for tok in s.split()])
    if header is None or not meta_lines or not rows:
        raise ValueError("not a LUT file")
    meta = json.loads("\n".join(meta_lines))
    feats = []
    for col in header.split("\t"):
        col = col.strip()
        feats.append(col.split(" ")[0])
    meta["column features"] = feats
    data = np.array(rows, dtype=np.float64)
    if data.ndim != 2 or data.shape[1] != len(feats):
        raise ValueError("ragged LUT file")
    return data, meta


def parse_lut_file(path):
    with open(path, "r", errors="replace") as fd:
        return parse_lut_text(fd.read())


# ------------------------------------------------------------------ convex hull
def _convex_hull(pts):
    """Andrew's monotone chain; returns the hull vertices counter-clockwise (collinear
    points dropped)."""
    order = np.lexsort((pts[:, 1], pts[:, 0]))
    p = pts[order]

    def half(seq):
        out = []
        for q in seq:
            while len(out) >= 2:
                a, b = out[-2], out[-1]
                if (b[0] - a[0]) * (q[1] - a[1]) - (b[1] - a[1]) * (q[0] - a[0]) <= 0:
                    out.pop()
                else:
                    break
            out.append(q)
        return out
    lower = half(p)
    upper = half(p[::-1])
    return np.array(lower[:-1] + upper[:-1])


class LutRef:
    """Piecewise-linear interpolant of one LUT in max-normalised coordinates."""

    def __init__(self, data, meta):
        data = np.array(data, dtype=np.float64)
        feats = list(meta["column features"])
        if feats[1] != "deform" or feats[2] != "emodulus" or feats[0] not in ("area_um",
                                                                               "volume"):
            raise Undefined(f"no recipe for columns {feats}")
        self.featx = feats[0]
        self.power = 2 if self.featx == "area_um" else 3
        self.l0 = float(meta["channel_width"])
        self.q0 = float(meta["flow_rate"])
        self.eta0 = float(meta["fluid_viscosity"])
        self.xmax = float(data[:, 0].max())
        self.ymax = float(data[:, 1].max())
        self.nodes = np.column_stack([data[:, 0] / self.xmax, data[:, 1] / self.ymax])
        self.values = data[:, 2].copy()
        self.tri = Delaunay(self.nodes)
        self.simp = self.tri.simplices.astype(np.int64)
        self.neigh = self.tri.neighbors
        self._fit_affine()
        self._hull()
        self._ambiguous()
        self._node_slack()

    # ............................................................ preparation
    @staticmethod
    def _affine(pa, pb, pc, va, vb, vc):
        """Coefficients (gx, gy, c0) of the plane through three points; NaN if the
        triangle is degenerate. Also the twice-signed area and the three heights."""
        det = (pb[:, 0] - pa[:, 0]) * (pc[:, 1] - pa[:, 1]) \
            - (pb[:, 1] - pa[:, 1]) * (pc[:, 0] - pa[:, 0])
        with np.errstate(divide="ignore", invalid="ignore"):
            gx = ((vb - va) * (pc[:, 1] - pa[:, 1]) - (vc - va) * (pb[:, 1] - pa[:, 1])) / det
            gy = ((vc - va) * (pb[:, 0] - pa[:, 0]) - (vb - va) * (pc[:, 0] - pa[:, 0])) / det
        return gx, gy, det

    def _fit_affine(self):
        s = self.simp
        self.pa, self.pb, self.pc = self.nodes[s[:, 0]], self.nodes[s[:, 1]], self.nodes[s[:, 2]]
        self.va, self.vb, self.vc = self.values[s[:, 0]], self.values[s[:, 1]], self.values[s[:, 2]]
        self.gx, self.gy, self.det = self._affine(self.pa, self.pb, self.pc,
                                                  self.va, self.vb, self.vc)
        self.degenerate = ~np.isfinite(self.gx) | ~np.isfinite(self.gy) | (self.det == 0)
        self.grad1 = np.where(self.degenerate, np.inf, np.abs(self.gx) + np.abs(self.gy))
        # edge lengths opposite to a, b, c -> heights (distance of a vertex to its
        # opposite edge) used to convert barycentric weights into distances
        la = np.hypot(*(self.pb - self.pc).T)
        lb = np.hypot(*(self.pc - self.pa).T)
        lc = np.hypot(*(self.pa - self.pb).T)
        with np.errstate(divide="ignore", invalid="ignore"):
            self.heights = np.abs(self.det)[:, None] / np.column_stack([la, lb, lc])

    def _hull(self):
        hv = _convex_hull(self.nodes)
        self.hull_vertices = hv
        a = hv
        b = np.roll(hv, -1, axis=0)
        e = b - a
        ln = np.hypot(e[:, 0], e[:, 1])
        # outward normal of a counter-clockwise polygon
        self.hull_a = a
        self.hull_b = b
        self.hull_n = np.column_stack([e[:, 1], -e[:, 0]]) / ln[:, None]

    def _ambiguous(self):
        """Mark adjacent triangle pairs with a nearly cocircular quadrilateral and
        prepare the two triangles of the flipped diagonal."""
        s, nb = self.simp, self.neigh
        t_idx, k_idx = np.nonzero(nb >= 0)
        keep = nb[t_idx, k_idx] > t_idx
        t_idx, k_idx = t_idx[keep], k_idx[keep]
        n_idx = nb[t_idx, k_idx]
        # vertex k of triangle t is opposite to neighbour k
        o_t = s[t_idx, k_idx]
        u = s[t_idx, (k_idx + 1) % 3]
        v = s[t_idx, (k_idx + 2) % 3]
        sn = s[n_idx]
        mask = (sn != u[:, None]) & (sn != v[:, None])
        o_n = sn[np.arange(len(n_idx)), np.argmax(mask, axis=1)]
        pts = self.nodes
        a, b, c, d = pts[o_t], pts[u], pts[v], pts[o_n]
        ad, bd, cd = a - d, b - d, c - d
        incirc = ((ad[:, 0] ** 2 + ad[:, 1] ** 2) * (bd[:, 0] * cd[:, 1] - bd[:, 1] * cd[:, 0])
                  - (bd[:, 0] ** 2 + bd[:, 1] ** 2) * (ad[:, 0] * cd[:, 1] - ad[:, 1] * cd[:, 0])
                  + (cd[:, 0] ** 2 + cd[:, 1] ** 2) * (ad[:, 0] * bd[:, 1] - ad[:, 1] * bd[:, 0]))
        scale = np.maximum(np.maximum(np.hypot(*ad.T), np.hypot(*bd.T)), np.hypot(*cd.T))
        with np.errstate(divide="ignore", invalid="ignore"):
            norm = np.abs(incirc) / scale ** 4
        self.incircle_min = float(np.nanmin(norm)) if len(norm) else float("inf")
        amb = ~(norm >= EPS_CIRC)
        self.n_ambiguous_pairs = int(amb.sum())
        self.ambiguous = np.zeros(len(s), dtype=bool)
        self.ambiguous[t_idx[amb]] = True
        self.ambiguous[n_idx[amb]] = True
        # flipped triangles (o_t, o_n, u) and (o_t, o_n, v), attached to both members
        flipped = []
        owners = {}
        for tt, nn, ot, on, uu, vv in zip(t_idx[amb], n_idx[amb], o_t[amb], o_n[amb],
                                          u[amb], v[amb]):
            for third in (uu, vv):
                flipped.append((int(ot), int(on), int(third)))
                for owner in (int(tt), int(nn)):
                    owners.setdefault(owner, []).append(len(flipped) - 1)
        self.alt = owners                      # triangle -> indices into the flipped list
        self.alt_index = np.full((len(s), 6), -1, dtype=np.int64)
        for owner, lst in owners.items():
            self.alt_index[owner, :len(lst[:6])] = lst[:6]
        fl = np.array(flipped, dtype=np.int64).reshape(-1, 3)
        self.f_pa, self.f_pb, self.f_pc = pts[fl[:, 0]], pts[fl[:, 1]], pts[fl[:, 2]]
        self.f_va = self.values[fl[:, 0]]
        self.f_gx, self.f_gy, self.f_det = self._affine(
            self.f_pa, self.f_pb, self.f_pc, self.values[fl[:, 0]], self.values[fl[:, 1]],
            self.values[fl[:, 2]])

    def _node_slack(self):
        """Largest |gradient|_1 of the triangles incident to each node."""
        g = np.zeros(len(self.nodes))
        fin = np.where(self.degenerate, 0.0, self.grad1)
        for k in range(3):
            np.maximum.at(g, self.simp[:, k], fin)
        self.node_grad1 = g
        hmin = np.full(len(self.nodes), np.inf)
        th = np.where(self.degenerate, 0.0, np.nanmin(self.heights, axis=1))
        for k in range(3):
            np.minimum.at(hmin, self.simp[:, k], th)
        self.node_hmin = hmin

    # ................................................................ queries
    def hull_distance(self, pts):
        """Signed distance proxy to the support: max over hull edges of the outward
        distance to the edge line (> 0 outside, < 0 inside)."""
        d = np.einsum("pej,ej->pe", pts[:, None, :] - self.hull_a[None, :, :], self.hull_n)
        return d.max(axis=1)

    def bary(self, tidx, pts):
        """Own barycentric weights of pts w.r.t. triangles tidx."""
        pa, pb, pc = self.pa[tidx], self.pb[tidx], self.pc[tidx]
        det = self.det[tidx]
        with np.errstate(divide="ignore", invalid="ignore"):
            wb = ((pts[:, 0] - pa[:, 0]) * (pc[:, 1] - pa[:, 1])
                  - (pts[:, 1] - pa[:, 1]) * (pc[:, 0] - pa[:, 0])) / det
            wc = ((pb[:, 0] - pa[:, 0]) * (pts[:, 1] - pa[:, 1])
                  - (pb[:, 1] - pa[:, 1]) * (pts[:, 0] - pa[:, 0])) / det
        return np.column_stack([1.0 - wb - wc, wb, wc])

    def plane(self, tidx, pts):
        """Value of the (extended) affine interpolant of triangles tidx at pts."""
        return self.va[tidx] + self.gx[tidx] * (pts[:, 0] - self.pa[tidx, 0]) \
            + self.gy[tidx] * (pts[:, 1] - self.pa[tidx, 1])

    def near_triangles(self, p, band=BAND):
        """All triangles whose closed `band`-neighbourhood contains p (brute force),
        and the triangle closest to containing p."""
        n = len(self.simp)
        w = self.bary(np.arange(n), np.repeat(p[None, :], n, axis=0))
        dist = w * self.heights           # signed distances to the three edges
        dist[~np.isfinite(dist)] = -np.inf
        worst = dist.min(axis=1)
        worst[self.degenerate] = -np.inf
        cand = np.nonzero(worst >= -band)[0]
        best = int(np.argmax(worst))
        return cand, best, float(worst[best])

    def flipped_plane(self, fidx, pts):
        """Value, containment (min barycentric weight) and |gradient|_1 of flipped
        triangles fidx at pts (vectorised)."""
        pa, pb, pc = self.f_pa[fidx], self.f_pb[fidx], self.f_pc[fidx]
        det = self.f_det[fidx]
        with np.errstate(divide="ignore", invalid="ignore"):
            wb = ((pts[:, 0] - pa[:, 0]) * (pc[:, 1] - pa[:, 1])
                  - (pts[:, 1] - pa[:, 1]) * (pc[:, 0] - pa[:, 0])) / det
            wc = ((pb[:, 0] - pa[:, 0]) * (pts[:, 1] - pa[:, 1])
                  - (pb[:, 1] - pa[:, 1]) * (pts[:, 0] - pa[:, 0])) / det
            wmin = np.minimum(np.minimum(1.0 - wb - wc, wb), wc)
            val = self.f_va[fidx] + self.f_gx[fidx] * (pts[:, 0] - pa[:, 0]) \
                + self.f_gy[fidx] * (pts[:, 1] - pa[:, 1])
        g1 = np.abs(self.f_gx[fidx]) + np.abs(self.f_gy[fidx])
        return val, wmin, g1

    def evaluate(self, xn, yn):
        """Reference interpolant at normalised points.

        Returns a dict of arrays: ref (value in LUT units, NaN where the model has no
        triangle), tri (index or -1), hd (hull distance), grad1, cls (0 inside, 1 band,
        2 outside, 3 non-finite input), ambiguous (bool).
        """
        xn = np.asarray(xn, dtype=np.float64).ravel()
        yn = np.asarray(yn, dtype=np.float64).ravel()
        n = xn.size
        pts = np.column_stack([xn, yn])
        fin = np.isfinite(pts).all(axis=1)
        # coordinates beyond any table are treated like non-finite ones (outside)
        fin &= (np.abs(pts) < 1e100).all(axis=1)
        hd = np.full(n, np.inf)
        tri = np.full(n, -1, dtype=np.int64)
        ref = np.full(n, np.nan)
        grad1 = np.zeros(n)
        located_by = np.zeros(n, dtype=np.int8)   # 1 hint, 2 brute force
        edge_dist = np.full(n, np.nan)            # distance to the nearest edge of `tri`
        grad1_nbhd = np.zeros(n)                  # max |grad|_1 over triangles touching `tri`
        hmin_nbhd = np.full(n, np.inf)            # min height over triangles touching `tri`
        if fin.any():
            idx = np.nonzero(fin)[0]
            hd[idx] = self.hull_distance(pts[idx])
            cand = idx[hd[idx] <= BAND]
            if cand.size:
                hint = self.tri.find_simplex(pts[cand])
                ok = hint >= 0
                if ok.any():
                    w = self.bary(hint[ok], pts[cand[ok]])
                    good = (w.min(axis=1) >= -1e-10) & ~self.degenerate[hint[ok]]
                    sel = cand[ok][good]
                    tri[sel] = hint[ok][good]
                    located_by[sel] = 1
                for i in cand[tri[cand] < 0]:
                    _, best, worst = self.near_triangles(pts[i])
                    if worst >= -10 * BAND:
                        tri[i] = best
                        located_by[i] = 2
            have = tri >= 0
            if have.any():
                ref[have] = self.plane(tri[have], pts[have])
                grad1[have] = self.grad1[tri[have]]
                edge_dist[have] = (self.bary(tri[have], pts[have])
                                   * self.heights[tri[have]]).min(axis=1)
                grad1_nbhd[have] = self.node_grad1[self.simp[tri[have]]].max(axis=1)
                hmin_nbhd[have] = self.node_hmin[self.simp[tri[have]]].min(axis=1)
        cls = np.where(~fin, 3, np.where(hd > BAND, 2, np.where(hd < -BAND, 0, 1)))
        amb = np.zeros(n, dtype=bool)
        amb[tri >= 0] = self.ambiguous[tri[tri >= 0]]
        return {"ref": ref, "tri": tri, "hd": hd, "grad1": grad1, "cls": cls,
                "ambiguous": amb, "pts": pts, "located_by": located_by,
                "edge_dist": edge_dist, "grad1_nbhd": grad1_nbhd, "hmin_nbhd": hmin_nbhd}

    # ................................................................. judge
    def judge(self, xn, yn, got, scale, rtol=RTOL):
        """Compare `got` (in set-up units) with the reference times `scale`.

        Returns (ev, verdict) with verdict codes per point:
          0 ok value, 1 ok NaN (outside), 2 band: NaN-ness not judged,
          3 ok via neighbouring triangle (edge/vertex), 4 ok via flipped diagonal,
          5 model has no triangle (not judged),
          7 NaN on a triangle edge / vertex (scipy point location, not judged),
          -1 value mismatch, -2 NaN inside the support, -3 number outside the support
        """
        ev = self.evaluate(xn, yn)
        got = np.asarray(got, dtype=np.float64).ravel()
        scale = np.broadcast_to(np.asarray(scale, dtype=np.float64), got.shape)
        n = got.size
        verdict = np.zeros(n, dtype=np.int8)
        ref = ev["ref"] * scale
        tol = rtol * np.abs(ref) + POS_DELTA * ev["grad1"] * np.abs(scale)
        isnan = np.isnan(got)
        cls = ev["cls"]
        out = cls >= 2
        verdict[out & isnan] = 1
        verdict[out & ~isnan] = -3
        band_nan = (cls == 1) & isnan
        verdict[band_nan] = 2
        todo = (~out) & ~band_nan
        inside_nan = todo & isnan
        verdict[inside_nan] = -2
        with np.errstate(invalid="ignore"):
            on_edge = inside_nan & (ev["edge_dist"] < EDGE_BAND)
        verdict[on_edge] = 7
        nomodel = todo & ~isnan & (ev["tri"] < 0)
        verdict[nomodel] = 5
        cmp_ = todo & ~isnan & (ev["tri"] >= 0)
        with np.errstate(invalid="ignore"):
            bad = cmp_ & ~(np.abs(got - ref) <= tol)
        verdict[cmp_ & ~bad] = 0
        ev["err"] = np.where(cmp_, np.abs(got - ref) / np.maximum(np.abs(ref), 1e-300), 0.0)
        # mismatches, step 1 (vectorised): the three neighbouring triangles (point on an
        # edge / vertex) and the flipped diagonals of ambiguous pairs
        bi = np.nonzero(bad)[0]
        if bi.size:
            verdict[bi] = -1
            t0 = ev["tri"][bi]
            pp = ev["pts"][bi]
            for k in range(3):
                nbk = self.neigh[t0, k]
                okk = nbk >= 0
                nb_safe = np.where(okk, nbk, 0)
                val = self.plane(nb_safe, pp) * scale[bi]
                tl = rtol * np.abs(val) + POS_DELTA * self.grad1[nb_safe] * np.abs(scale[bi])
                w = self.bary(nb_safe, pp)
                with np.errstate(invalid="ignore"):
                    near = (w * self.heights[nb_safe]).min(axis=1) >= -BAND
                    hit = okk & near & (np.abs(got[bi] - val) <= tl) & (verdict[bi] == -1)
                verdict[bi[hit]] = 3
            for k in range(6):
                fk = self.alt_index[t0, k]
                okk = fk >= 0
                if not okk.any():
                    continue
                f_safe = np.where(okk, fk, 0)
                val, wmin, g1 = self.flipped_plane(f_safe, pp)
                val = val * scale[bi]
                tl = rtol * np.abs(val) + POS_DELTA * g1 * np.abs(scale[bi])
                with np.errstate(invalid="ignore"):
                    hit = okk & (wmin >= -1e-6) & (np.abs(got[bi] - val) <= tl) \
                        & (verdict[bi] == -1)
                verdict[bi[hit]] = 4
        # step 2 (brute force, capped): any triangle whose BAND-neighbourhood contains
        # the point, and the flipped diagonals attached to those
        left = bi[verdict[bi] == -1] if bi.size else bi
        for i in left[:self.SLOW_PATH_CAP]:
            p = ev["pts"][i]
            cand, _, _ = self.near_triangles(p)
            for t in cand:
                val = float(self.plane(np.array([t]), p[None, :])[0]) * scale[i]
                tl = rtol * abs(val) + POS_DELTA * self.grad1[t] * abs(scale[i])
                if abs(got[i] - val) <= tl:
                    verdict[i] = 3
                    break
            if verdict[i] == -1:
                fl = sorted({f for t in cand for f in self.alt.get(int(t), ())})
                if fl:
                    fl = np.array(fl)
                    val, wmin, g1 = self.flipped_plane(fl, np.repeat(p[None, :], len(fl), 0))
                    val = val * scale[i]
                    tl = rtol * np.abs(val) + POS_DELTA * g1 * abs(scale[i])
                    with np.errstate(invalid="ignore"):
                        if ((wmin >= -1e-6) & (np.abs(got[i] - val) <= tl)).any():
                            verdict[i] = 4
        ev["n_slow"] = int(min(len(left), self.SLOW_PATH_CAP))
        ev["expected"] = ref
        ev["tol"] = tol
        return ev, verdict

    SLOW_PATH_CAP = 40


# ------------------------------------------------------------ the whole recipe
def setup_mapping(lut, x, deform, channel_width, flow_rate, px_um, eta):
    """Map the caller's data into the normalised LUT frame.

    Returns xn, yn (normalised coordinates) and the factor by which the LUT's
    Young's modulus has to be multiplied."""
    x = np.asarray(x, dtype=np.float64)
    deform = np.asarray(deform, dtype=np.float64)
    if px_um:
        deform = deform - pixelation_delta(lut.featx, x, px_um)
    ratio = lut.l0 / channel_width
    xn = x * ratio ** lut.power / lut.xmax
    yn = deform / lut.ymax
    scale = (flow_rate / lut.q0) * (np.asarray(eta, dtype=np.float64) / lut.eta0) * ratio ** 3
    return xn, yn, scale


def inverse_mapping(lut, xn, yn, channel_width, px_um):
    """Set-up coordinates (x, deform) whose image is (xn, yn) up to rounding."""
    x = np.asarray(xn, dtype=np.float64) * lut.xmax * (channel_width / lut.l0) ** lut.power
    deform = np.asarray(yn, dtype=np.float64) * lut.ymax
    if px_um:
        with np.errstate(over="ignore", invalid="ignore"):
            deform = deform + pixelation_delta(lut.featx, x, px_um)
    return x, deform


def format_lut_text(data, meta, featx):
    """Write a LUT in the mtext format (used for generated user LUTs)."""
    unit = "um^2" if featx == "area_um" else "um^3"
    md = {k: v for k, v in meta.items() if not k.startswith("column ")}
    lines = ["# generated look-up table (vmon C05)", "#", "# BEGIN METADATA"]
    for ln in json.dumps(md, indent=2, sort_keys=True).splitlines():
        lines.append("# " + ln)
    lines += ["# END METADATA", "#",
              f"# {featx} [{unit}]\tdeform\temodulus [kPa]"]
    for row in data:
        lines.append("\t".join(f"{v:.5e}" for v in row))
    return "\n".join(lines) + "\n"


def isclose_rel(a, b, rtol, slack=0.0):
    """NaN-aware closeness: both NaN, or |a-b| <= rtol*max(|a|,|b|) + slack."""
    a = np.asarray(a, dtype=np.float64)
    b = np.asarray(b, dtype=np.float64)
    both_nan = np.isnan(a) & np.isnan(b)
    with np.errstate(invalid="ignore"):
        close = np.abs(a - b) <= rtol * np.maximum(np.abs(a), np.abs(b)) + slack
    return both_nan | (close & ~np.isnan(a) & ~np.isnan(b))


def _selftest():
    """Tiny sanity check of the model on an analytic table (python -m)."""
    rng = np.random.default_rng(0)
    gx, gy = np.meshgrid(np.linspace(10, 100, 8), np.linspace(0.01, 0.2, 7))
    data = np.column_stack([gx.ravel(), gy.ravel(), 1 + 0.01 * gx.ravel() + 3 * gy.ravel()])
    meta = {"channel_width": 20.0, "flow_rate": 0.04, "fluid_viscosity": 15.0,
            "column features": ["area_um", "deform", "emodulus"]}
    lut = LutRef(data, meta)
    x = rng.uniform(0, 1.1, 200)
    y = rng.uniform(0, 1.1, 200)
    ev, verdict = lut.judge(x, y, np.where((x >= 0.1) & (x <= 1) & (y >= 0.05) & (y <= 1),
                                           1 + x + 0.6 * y, np.nan), 1.0)
    assert (verdict >= 0).all(), verdict
    assert math.isclose(float(viscosity("water", None, 20, 0.04, 20.0)), 1.002)
    print("ok", lut.n_ambiguous_pairs, "ambiguous pairs")


if __name__ == "__main__":
    _selftest()
