"""C11 reference model: frozen snapshot of dclab's documented metadata table and
independent converter functions.

* The section/key -> type table below is literal data (snapshot of the documented
  configuration table of dclab 0.62.7, docs "Experiment metadata" / "Analysis metadata").
  Nothing here imports dclab.  Keys that dclab adds later are simply not part of the
  snapshot: the oracle ignores them (status "dc"), it does not flag them.
* ``key_status`` decides whether (section, key) is a known key and which documented type it has.
* ``convert`` is the reference conversion: total, returns an ``Outcome`` that is one of
  ok (value that must be stored), reject (nothing may be stored) or dc (undocumented input,
  recorded but not judged).
* ``doc_class_ok`` - the documented class of a stored value, ``values_equal`` - NaN-aware
  comparison (optionally at the 12 decimals of the text format), ``brand`` - the documented
  "setup:software version" branding of the writer.
"""
import math
import numbers
import re

import numpy as np

#: sections written to .rtdc files (read-only measurement metadata)
CFG_METADATA = {
    "experiment": {
        "date": "str",
        "event count": "fint",
        "run index": "fint",
        "run identifier": "str",
        "sample": "str",
        "time": "str",
        "timestamp": "float",
    },
    "fluorescence": {
        "baseline 1 offset": "fint",
        "baseline 2 offset": "fint",
        "baseline 3 offset": "fint",
        "bit depth": "fint",
        "channel 1 name": "str",
        "channel 2 name": "str",
        "channel 3 name": "str",
        "channel count": "fint",
        "channels installed": "fint",
        "laser 1 lambda": "float",
        "laser 1 power": "float",
        "laser 2 lambda": "float",
        "laser 2 power": "float",
        "laser 3 lambda": "float",
        "laser 3 power": "float",
        "laser count": "fint",
        "lasers installed": "fint",
        "sample rate": "fint",
        "samples per event": "fint",
        "signal max": "float",
        "signal min": "float",
        "trace median": "fint",
    },
    "fmt_tdms": {
        "video frame offset": "fint",
    },
    "imaging": {
        "flash device": "str",
        "flash duration": "float",
        "frame rate": "float",
        "pixel size": "float",
        "roi position x": "fint",
        "roi position y": "fint",
        "roi size x": "fint",
        "roi size y": "fint",
    },
    "online_contour": {
        "bg empty": "fbool",
        "bin area min": "fint",
        "bin kernel": "fint",
        "bin threshold": "fint",
        "image blur": "fint",
        "no absdiff": "fbool",
    },
    "online_filter": {
        "target duration": "float",
        "target event count": "fint",
    },
    "pipeline": {
        "dcnum background": "str",
        "dcnum data": "str",
        "dcnum feature": "str",
        "dcnum gate": "str",
        "dcnum generation": "str",
        "dcnum hash": "str",
        "dcnum mapping": "str",
        "dcnum segmenter": "str",
        "dcnum yield": "fint",
    },
    "qpi": {
        "wavelength": "float",
        "medium index": "float",
        "pixel size raw": "float",
        "software version": "str",
        "bg method": "str",
        "padding": "fint",
        "subtract mean": "fbool",
        "filter name": "str",
        "filter size": "float",
        "scale to filter": "fboolorfloat",
        "sideband freq": "f1dfloatduple",
        "invert phase": "fbool",
        "pixel size proc": "float",
        "amp fit offset": "str",
        "amp fit profile": "str",
        "pha fit offset": "str",
        "pha fit profile": "str",
        "amp border px": "fint",
        "pha border px": "fint",
        "amp border loc": "str",
        "pha border loc": "str",
        "focus interval": "f1dfloatduple",
        "focus metric": "str",
        "focus minimizer": "str",
        "focus kernel": "str",
        "focus padding": "fint",
    },
    "setup": {
        "channel width": "float",
        "chip identifier": "lcstr",
        "chip region": "lcstr",
        "flow rate": "float",
        "flow rate sample": "float",
        "flow rate sheath": "float",
        "identifier": "str",
        "medium": "str",
        "module composition": "str",
        "software version": "str",
        "temperature": "float",
    },
}
CFG_ANALYSIS = {
    "filtering": {
        "hierarchy parent": "str",
        "remove invalid events": "fbool",
        "enable filters": "fbool",
        "limit events": "fint",
        "polygon filters": "fintlist",
    },
    "calculation": {
        "emodulus lut": "str",
        "emodulus medium": "str",
        "emodulus temperature": "float",
        "emodulus viscosity": "float",
        "emodulus viscosity model": "str",
        "crosstalk fl21": "float",
        "crosstalk fl31": "float",
        "crosstalk fl12": "float",
        "crosstalk fl32": "float",
        "crosstalk fl13": "float",
        "crosstalk fl23": "float",
    },
}
SCALAR_FEATURES = [
    "area_cvx", "area_msd", "area_ratio", "area_um", "area_um_raw", "aspect", "bg_med",
    "bg_off", "bright_avg", "bright_sd", "bright_bc_avg", "bright_bc_sd",
    "bright_perc_10", "bright_perc_90", "circ", "deform", "deform_raw", "eccentr_prnc",
    "emodulus", "fl1_area", "fl1_dist", "fl1_max", "fl1_max_ctc", "fl1_npeaks",
    "fl1_pos", "fl1_width", "fl2_area", "fl2_dist", "fl2_max", "fl2_max_ctc",
    "fl2_npeaks", "fl2_pos", "fl2_width", "fl3_area", "fl3_dist", "fl3_max",
    "fl3_max_ctc", "fl3_npeaks", "fl3_pos", "fl3_width", "flow_rate", "frame",
    "g_force", "index", "index_online", "inert_ratio_cvx", "inert_ratio_prnc",
    "inert_ratio_raw", "ml_class", "nevents", "pc1", "pc2", "per_ratio", "per_um_raw",
    "pos_x", "pos_y", "pressure", "qpi_dm_avg", "qpi_dm_sd", "qpi_pha_int",
    "qpi_ri_avg", "qpi_ri_sd", "qpi_focus", "size_x", "size_y", "sym_x", "sym_y",
    "temp", "temp_amb", "tex_asm_avg", "tex_asm_ptp", "tex_con_avg", "tex_con_ptp",
    "tex_cor_avg", "tex_cor_ptp", "tex_den_avg", "tex_den_ptp", "tex_ent_avg",
    "tex_ent_ptp", "tex_f12_avg", "tex_f12_ptp", "tex_f13_avg", "tex_f13_ptp",
    "tex_idm_avg", "tex_idm_ptp", "tex_sen_avg", "tex_sen_ptp", "tex_sva_avg",
    "tex_sva_ptp", "tex_var_avg", "tex_var_ptp", "tilt", "time", "volume", "userdef0",
    "userdef1", "userdef2", "userdef3", "userdef4", "userdef5", "userdef6", "userdef7",
    "userdef8", "userdef9", "basinmap0", "basinmap1", "basinmap2", "basinmap3",
    "basinmap4", "basinmap5", "basinmap6", "basinmap7", "basinmap8", "basinmap9"
]

#: frozen pattern-key vocabulary of the online_filter / filtering sections
RANGE_SUFFIXES = ("min", "max")
SOFT = "soft limit"
POLY = "polygon points"
ML_CHARS = "0123456789abcdefghijklmnopqrstuvwxyz"

TABLE = {}
TABLE.update(CFG_METADATA)
TABLE.update(CFG_ANALYSIS)
METADATA_SECTIONS = tuple(CFG_METADATA)
ANALYSIS_SECTIONS = tuple(CFG_ANALYSIS)
DEPRECATED_SECTIONS = ("plotting", "analysis")
_SCALAR = frozenset(SCALAR_FEATURES)
#: scalar features registered at run time (temporary / plug-in features); the driver of the
#: registry histories keeps this set in step with dclab's registry
REGISTERED = set()

#: all type names of the model
TYPES = ("str", "lcstr", "float", "fint", "fbool", "fintlist", "f1dfloatduple",
         "f2dfloatarray", "fboolorfloat", "number", "any")


def scalar_feature(name):
    """Frozen notion of "scalar feature name" (innate names + ml_score_???)."""
    if not isinstance(name, str):
        return False
    if name in _SCALAR or name in REGISTERED:
        return True
    return (len(name) == 12 and name.startswith("ml_score_")
            and all(c in ML_CHARS for c in name[9:]))


def lower_key(key):
    return key.lower() if isinstance(key, str) else key


def key_status(section, key):
    """-> ("known", type) | ("unknown", why) | ("dc", why); `key` as the user spells it."""
    key = lower_key(key)
    if section == "user":
        if isinstance(key, str) and key.strip():
            return "known", "any"
        return "unknown", "user keys must be non-blank strings"
    if not isinstance(key, str):
        return "dc", "non-string key outside the user section"
    if section in DEPRECATED_SECTIONS:
        return "unknown", "deprecated section"
    if section not in TABLE:
        return "unknown", "unknown section"
    if key in TABLE[section]:
        return "known", TABLE[section][key]
    if section == "filtering":
        head, _, suffix = key.rpartition(" ")
        if suffix in RANGE_SUFFIXES and head:
            if scalar_feature(head):
                return "known", "any"       # box filter limit; no documented conversion
            return "unknown", "range for unknown feature"
        return "unknown", "unknown key"
    if section == "online_filter":
        head, _, suffix = key.partition(" ")
        if "," in key:
            if "," in head and suffix in (SOFT, POLY):
                parts = head.split(",")
                if len(parts) == 2 and all(scalar_feature(p) for p in parts):
                    return "known", ("fbool" if suffix == SOFT else "f2dfloatarray")
                return "unknown", "polygon key needs exactly two scalar features"
            if "," in head and not scalar_feature(head):
                return "unknown", "feature pair with undocumented suffix"
            return "dc", "comma in an undocumented place"
        if not scalar_feature(head):
            return "unknown", "unknown feature"
        if suffix in RANGE_SUFFIXES:
            return "known", "number"
        if suffix == SOFT:
            return "known", "fbool"
        return "dc", "scalar feature with undocumented suffix"
    return "unknown", "unknown key"


# ------------------------------------------------------------------- conversions
class Outcome:
    __slots__ = ("kind", "value", "why", "alt_reject")

    def __init__(self, kind, value=None, why="", alt_reject=False):
        self.kind = kind            # "ok" | "reject" | "dc"
        self.value = value
        self.why = why
        self.alt_reject = alt_reject  # for "ok": not storing at all is acceptable too

    def __repr__(self):
        return f"Outcome({self.kind}, {self.value!r}, {self.why})"


class _Reject(Exception):
    pass


class _DontCare(Exception):
    pass


_FLOAT_TXT = re.compile(r"^[+-]?((\d+\.?\d*([eE][+-]?\d+)?)|(\.\d+([eE][+-]?\d+)?)"
                        r"|inf|infinity|nan)$", re.IGNORECASE)


def kind_of(v):
    if v is None:
        return "none"
    if isinstance(v, (bool, np.bool_)):
        return "bool" if isinstance(v, bool) else "npbool"
    if isinstance(v, (str, np.str_)):
        return "str"
    if isinstance(v, (bytes, np.bytes_)):
        return "bytes"
    if isinstance(v, np.generic):
        if isinstance(v, np.integer):
            return "npint"
        if isinstance(v, np.floating):
            return "npfloat"
        return "npother"
    if isinstance(v, int):
        return "int"
    if isinstance(v, float):
        return "float"
    if isinstance(v, list):
        return "list"
    if isinstance(v, tuple):
        return "tuple"
    if isinstance(v, np.ndarray):
        return f"ndarray{min(v.ndim, 3)}"
    return "other"


def text_number(s):
    """Value of a numeric string (Python float grammar without underscores)."""
    t = s.strip()
    if not _FLOAT_TXT.match(t):
        raise _Reject(f"not a numeric string: {s!r}")
    t = t.lower()
    sign = -1.0 if t.startswith("-") else 1.0
    body = t.lstrip("+-")
    if body in ("inf", "infinity"):
        return sign * math.inf
    if body == "nan":
        return math.nan
    return float(t)


def as_real(v):
    """The real number a value denotes, as a Python float."""
    k = kind_of(v)
    if k in ("bool", "npbool"):
        return 1.0 if v else 0.0
    if k in ("int", "float", "npint", "npfloat"):
        return float(v)
    if k == "str":
        return text_number(str(v))
    if k == "ndarray0":
        if v.dtype.kind in "biuf":
            return float(v[()])
        raise _Reject("non-numeric 0-d array")
    if k == "ndarray1" and v.size == 1:
        raise _DontCare("size-1 array to scalar depends on the numpy version")
    if k == "bytes":
        raise _DontCare("bytes are undocumented")
    raise _Reject(f"{k} does not denote a number")


def _to_int(v):
    if kind_of(v) == "str":
        s = str(v).lower()
        if s == "true":
            return 1
        if s == "false":
            return 0
        if s.strip() in ("true", "false"):
            raise _DontCare("padded boolean word")
    if kind_of(v) in ("int", "npint") and abs(int(v)) > 2 ** 53:
        raise _DontCare("integer beyond the exact range of a double")
    r = as_real(v)
    if math.isnan(r) or math.isinf(r):
        raise _Reject("nan/inf is not an integer")
    return int(math.trunc(r))


def _to_bool(v):
    if kind_of(v) == "str":
        s = str(v).lower()
        if s == "true":
            return True
        if s == "false":
            return False
        if s.strip() in ("true", "false"):
            raise _DontCare("padded boolean word")
    return as_real(v) != 0.0


def _conv(typ, v):
    k = kind_of(v)
    if typ == "any":
        return v
    if typ == "number":
        # documented type: a number.  Numbers are kept; a numeric string must come out as the
        # number it denotes (or be refused); anything else cannot be a number.
        if k in ("int", "float", "npint", "npfloat"):
            return v
        if k == "str":
            return Outcome("ok", text_number(str(v)), alt_reject=True)
        if k in ("bool", "npbool", "ndarray0", "bytes"):
            raise _DontCare(f"{k} for a number key")
        raise _Reject(f"{k} is not a number")
    if k == "bytes":
        raise _DontCare("bytes are undocumented on assignment")
    if typ == "str":
        return str(v)
    if typ == "lcstr":
        if k != "str":
            raise _DontCare("non-string input to a lower-case-string key")
        return str(v).lower()
    if typ == "float":
        return as_real(v)
    if typ == "fint":
        return _to_int(v)
    if typ == "fbool":
        return _to_bool(v)
    if typ == "fintlist":
        if k == "str":
            txt = str(v).strip()
            while txt[:1] in "[ " and txt:
                txt = txt[1:]
            while txt[-1:] in "] " and txt:
                txt = txt[:-1]
            items = [t for t in txt.split(",")]
            return [_to_int(t) for t in items if t.strip() != ""]
        if k in ("list", "tuple"):
            out = []
            for it in v:
                if kind_of(it) == "str" and str(it).strip() == "":
                    continue
                if kind_of(it) in ("list", "tuple", "none", "other") \
                        or kind_of(it).startswith("ndarray"):
                    raise _Reject("nested / null item")
                out.append(_to_int(it))
            return out
        if k.startswith("ndarray") or k == "other":
            raise _DontCare("undocumented container for a list of integers")
        raise _Reject(f"{k} is not a list")
    if typ == "f1dfloatduple":
        if k in ("list", "tuple", "ndarray1"):
            items = list(v)
            for it in items:
                if kind_of(it) in ("list", "tuple") or kind_of(it).startswith("ndarray"):
                    raise _Reject("not one-dimensional")
            if len(items) != 2:
                raise _Reject("length is not two")
            return tuple(as_real(it) for it in items)
        if k == "str":
            raise _DontCare("text form of a sequence is undocumented")
        raise _Reject(f"{k} is not a one-dimensional sequence")
    if typ == "f2dfloatarray":
        if k in ("list", "tuple") or k.startswith("ndarray"):
            try:
                arr = np.array(v, dtype=np.float64)
            except (ValueError, TypeError) as exc:
                raise _Reject(f"not a rectangular numeric array: {exc}")
            if arr.ndim != 2:
                raise _DontCare("array that is not two-dimensional")
            return arr
        raise _DontCare(f"{k} for an array key")
    if typ == "fboolorfloat":
        if k in ("bool", "npbool"):
            return bool(v)
        if k == "str":
            s = str(v).lower()
            if s == "true":
                return True
            if s == "false":
                return False
            text_number(str(v))     # rejects non-numeric text
            raise _DontCare("numeric text for a bool-or-float key is ambiguous")
        r = as_real(v)
        if r == 0.0:
            return False
        return r
    raise AssertionError(typ)


def convert(typ, value):
    """Reference conversion of `value` for a key of documented type `typ` (total)."""
    if value is None:
        return Outcome("reject", why="None is never stored")
    if isinstance(value, str) and len(value) == 0:
        return Outcome("reject", why="empty strings are never stored")
    try:
        res = _conv(typ, value)
    except _Reject as exc:
        return Outcome("reject", why=str(exc))
    except _DontCare as exc:
        return Outcome("dc", why=str(exc))
    if isinstance(res, Outcome):
        return res
    return Outcome("ok", res)


def normalise(section, key, value):
    """(status, type, Outcome) for an assignment cfg[section][key] = value."""
    st, typ = key_status(section, key)
    if st == "unknown":
        return st, None, Outcome("reject", why=typ)
    if st == "dc":
        return st, None, Outcome("dc", why=typ)
    return st, typ, convert(typ, value)


# ------------------------------------------------------------------- classes / equality
def _is_int(x):
    return isinstance(x, numbers.Integral) and not isinstance(x, (bool, np.bool_))


def doc_class_ok(typ, x):
    """Is `x` an instance of the documented class of type `typ`?"""
    if typ in ("str", "lcstr"):
        return isinstance(x, str)
    if typ == "float":
        return isinstance(x, float)
    if typ == "fint":
        return _is_int(x)
    if typ == "fbool":
        return isinstance(x, (bool, np.bool_))
    if typ == "fintlist":
        return isinstance(x, list) and all(_is_int(i) for i in x)
    if typ == "f1dfloatduple":
        if isinstance(x, tuple):
            return len(x) == 2 and all(isinstance(i, float) for i in x)
        return isinstance(x, np.ndarray) and x.shape == (2,) and x.dtype.kind == "f"
    if typ == "f2dfloatarray":
        return isinstance(x, np.ndarray) and x.dtype == np.float64
    if typ == "fboolorfloat":
        return isinstance(x, (bool, np.bool_, float))
    if typ == "number":
        return isinstance(x, numbers.Number)
    return True


def _scalar_equal(a, b, atol):
    sa = isinstance(a, (str, bytes))
    sb = isinstance(b, (str, bytes))
    if sa or sb:
        return sa and sb and type(a) is type(b) and a == b
    try:
        fa, fb = float(a), float(b)
    except (TypeError, ValueError):
        try:
            return bool(a == b)
        except Exception:
            return False
    if math.isnan(fa) or math.isnan(fb):
        return math.isnan(fa) and math.isnan(fb)
    if atol and math.isfinite(fa) and math.isfinite(fb):
        return abs(fa - fb) <= atol
    return fa == fb and bool(a == b)


def values_equal(a, b, atol=0.0):
    """NaN-aware equality of metadata values; sequences and arrays compare by shape and
    element; `atol` is the absolute tolerance of the 12-decimal text format."""
    if isinstance(a, np.generic):
        a = a.item()
    if isinstance(b, np.generic):
        b = b.item()
    seq_a = isinstance(a, (list, tuple, np.ndarray)) and not (
        isinstance(a, np.ndarray) and a.ndim == 0)
    seq_b = isinstance(b, (list, tuple, np.ndarray)) and not (
        isinstance(b, np.ndarray) and b.ndim == 0)
    if isinstance(a, np.ndarray) and a.ndim == 0:
        a = a[()]
        a = a.item() if isinstance(a, np.generic) else a
    if isinstance(b, np.ndarray) and b.ndim == 0:
        b = b[()]
        b = b.item() if isinstance(b, np.generic) else b
    if seq_a != seq_b:
        return False
    if not seq_a:
        return _scalar_equal(a, b, atol)
    try:
        aa = np.asarray(a)
        bb = np.asarray(b)
    except ValueError:
        # ragged nesting: compare item by item
        aa = bb = None
    if aa is None or aa.dtype == object or bb.dtype == object:
        la = a.tolist() if isinstance(a, np.ndarray) else list(a)
        lb = b.tolist() if isinstance(b, np.ndarray) else list(b)
        return len(la) == len(lb) and all(values_equal(x, y, atol) for x, y in zip(la, lb))
    if aa.shape != bb.shape:
        return False
    if aa.dtype.kind in "US" or bb.dtype.kind in "US":
        return aa.dtype.kind == bb.dtype.kind and bool(np.array_equal(aa, bb))
    return all(_scalar_equal(x, y, atol)
               for x, y in zip(aa.ravel().tolist(), bb.ravel().tolist()))


def text_safe(value):
    """Strings the line-based text format can carry (documented syntax: one `key = value`
    per line, `#` starts a comment, surrounding blanks/quotes are stripped)."""
    if not isinstance(value, str):
        return True
    return (value == value.strip(" '\"\t") and "#" not in value and "\n" not in value
            and "\r" not in value and len(value) > 0)


def brand(old, version):
    """Documented version branding of the writer: append " | dclab X.Y.Z" once."""
    chain = [p.strip() for p in (old or "").split("|")]
    chain = [p for p in chain if p]
    cur = f"dclab {version}"
    if not chain or chain[-1] != cur:
        chain.append(cur)
    return " | ".join(chain)


def all_fixed_keys():
    return [(sec, key, typ) for sec, keys in TABLE.items() for key, typ in keys.items()]
