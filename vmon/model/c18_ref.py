"""C18 reference models and defect models (no dclab imports).

* mask predicates (connected, hole-free, border-touching) and the reference refill
  (plot the contour points, fill the holes) - the definition used by dclab itself in
  fmt_tdms/event_mask.py and by the repository's tests,
* an independent boundary tracer (marching squares on the zero-padded binary mask, high
  pixels 8-connected) used ONLY by the defect models: it predicts which contour dclab
  returns when the image border is not traced (D16) and when all rounded points coincide,
* brightness references in exact integer / rational arithmetic, own percentile,
* closed-form 3x3 crosstalk un-mixing, analytic volumes,
* defect models for D10, D16 and the single-point contour.
"""
import math
from collections import Counter
from fractions import Fraction

import numpy as np
import scipy.ndimage as ndi

S8 = np.ones((3, 3), dtype=bool)

D10 = "bright-perc-array-offset-truth-value"
D16 = "contour-open-for-border-touching-mask"
DSP = "contour-single-point-removed-as-duplicate"


# ------------------------------------------------------------------ mask predicates
def is_connected8(mask):
    return bool(mask.any()) and ndi.label(mask, structure=S8)[1] == 1


def is_connected4(mask):
    return bool(mask.any()) and ndi.label(mask)[1] == 1


def is_holefree(mask):
    """No background region that is cut off (4-connected) from the outside."""
    return bool(np.array_equal(ndi.binary_fill_holes(mask), mask))


def touches_border(mask):
    return bool(mask[0].any() or mask[-1].any() or mask[:, 0].any() or mask[:, -1].any())


def refill(cont, shape):
    """Mask obtained by plotting the contour points (x, y) and filling the interior."""
    m = np.zeros(shape, dtype=bool)
    m[cont[:, 1], cont[:, 0]] = True
    return ndi.binary_fill_holes(m)


def boundary_pixels(mask):
    """Pixels of the mask with a 4-neighbour outside the mask (or outside the image)."""
    p = np.pad(mask, 1)
    inner = p[:-2, 1:-1] & p[2:, 1:-1] & p[1:-1, :-2] & p[1:-1, 2:]
    return mask & ~inner


# ------------------------------------------------------------------ boundary tracer
def _loops(mask):
    """Marching squares on the zero-padded mask. Vertices are the mixed pixel edges
    (p, q): p in the mask, q a 4-neighbour outside of it. Returns a list of closed loops,
    each a list of vertices ((py, px), (qy, qx)) in traversal order."""
    H, W = mask.shape
    P = np.pad(mask.astype(bool), 1)
    adj = {}

    def link(a, b):
        adj.setdefault(a, []).append(b)
        adj.setdefault(b, []).append(a)

    ys, xs = np.nonzero(P[:-1, :-1] | P[:-1, 1:] | P[1:, :-1] | P[1:, 1:])
    for i, j in zip(ys.tolist(), xs.tolist()):
        c = ((i, j), (i, j + 1), (i + 1, j + 1), (i + 1, j))   # clockwise corners
        v = [bool(P[a]) for a in c]
        nh = sum(v)
        if nh == 0 or nh == 4:
            continue
        edges = []
        for k in range(4):
            a, b = c[k], c[(k + 1) % 4]
            if v[k] != v[(k + 1) % 4]:
                hi, lo = (a, b) if v[k] else (b, a)
                edges.append(((hi[0] - 1, hi[1] - 1), (lo[0] - 1, lo[1] - 1)))
        if len(edges) == 2:
            link(edges[0], edges[1])
        else:
            # saddle: high pixels are connected, so every low corner is cut off alone
            for lo in {e[1] for e in edges}:
                pair = [e for e in edges if e[1] == lo]
                link(pair[0], pair[1])
    loops = []
    seen = set()
    for start in sorted(adj):
        if start in seen:
            continue
        loop = [start]
        seen.add(start)
        prev, cur = None, start
        while True:
            n0, n1 = adj[cur]
            nxt = n0 if n0 != prev else n1
            if nxt == start:
                break
            loop.append(nxt)
            seen.add(nxt)
            prev, cur = cur, nxt
        loops.append(loop)
    return loops


def _dedupe_circular(points):
    """What dclab's remove_duplicates does to a circular point list."""
    if not points:
        return []
    x = list(points) + [points[0]]
    sel = [x[0]] + [x[i] for i in range(1, len(x)) if x[i] != x[i - 1]]
    return sel[:-1]


def predict_contour(mask, padded):
    """Predicted outcome of a longest-contour extraction.

    padded=True : the boundary is traced completely (intended behaviour).
    padded=False: only edges between two in-image pixels produce vertices, i.e. the
                  contour is cut open wherever the mask touches the image border (D16).
    Returns ("exc", name) or ("cont", [Counter of (x, y) points, ...]) - one entry per
    candidate when several pieces have the same maximal length."""
    H, W = mask.shape
    pieces = []   # (length as marching squares counts it, [points])
    for loop in _loops(mask):
        inside = [0 <= q[0] < H and 0 <= q[1] < W for _, q in loop]
        if padded or all(inside):
            pieces.append((len(loop) + 1, [p for p, _ in loop]))
            continue
        if not any(inside):
            continue
        n = len(loop)
        k0 = inside.index(False)
        run = []
        for t in range(1, n + 1):
            k = (k0 + t) % n
            if inside[k]:
                run.append(loop[k][0])
            elif run:
                pieces.append((len(run), run))
                run = []
        if run:
            pieces.append((len(run), run))
    if not pieces:
        return ("exc", "IndexError")
    best = max(ln for ln, _ in pieces)
    cands = []
    for ln, pts in pieces:
        if ln == best:
            d = _dedupe_circular(pts)
            if not d:
                cands.append(None)
            else:
                cands.append(Counter((x, y) for y, x in d))
    if all(c is None for c in cands):
        return ("exc", "NoValidContourFoundError")
    return ("cont", cands)


def outcome_matches(pred, outcome):
    """outcome: ("exc", name) or ("cont", ndarray (n, 2))."""
    if pred[0] == "exc" or outcome[0] == "exc":
        return pred[0] == outcome[0] and pred[1] == outcome[1]
    obs = Counter((int(x), int(y)) for x, y in outcome[1])
    return any(c is not None and c == obs for c in pred[1])


def classify_contour_failure(mask, outcome):
    """Mechanism key of the known defect whose model reproduces `outcome`, else None."""
    try:
        pu = predict_contour(mask, padded=False)
        if not outcome_matches(pu, outcome):
            return None
        pp = predict_contour(mask, padded=True)
    except Exception:
        return None
    if outcome_matches(pp, outcome):
        # tracing the border as well would not change the outcome
        if outcome == ("exc", "NoValidContourFoundError"):
            return DSP
        return None
    if touches_border(mask):
        return D16
    return None


# ------------------------------------------------------------------ brightness
def masked_values(mask, image, image_bg=None):
    """int64 values of (image - background) under the mask, as a python list."""
    img = np.asarray(image).astype(np.int64)
    if image_bg is not None:
        img = img - np.asarray(image_bg).astype(np.int64)
    return img[np.asarray(mask, dtype=bool)].tolist()


def mean_sd_exact(vals):
    n = len(vals)
    if n == 0:
        return float("nan"), float("nan")
    s1 = sum(vals)
    s2 = sum(v * v for v in vals)
    mean = Fraction(s1, n)
    var = Fraction(n * s2 - s1 * s1, n * n)
    return float(mean), math.sqrt(float(var)) if var > 0 else 0.0


def percentile_linear(vals, q):
    """Percentile with linear interpolation between order statistics (the numpy default)."""
    v = sorted(vals)
    n = len(v)
    if n == 0:
        return float("nan")
    h = Fraction(n - 1) * Fraction(q) / 100
    lo = int(h)   # floor, h >= 0
    hi = min(lo + 1, n - 1)
    return float(v[lo] + (h - lo) * (v[hi] - v[lo]))


def d10_predicts_valueerror(bg_off):
    """`if bg_off:` raises for ndarrays with more than one element."""
    return isinstance(bg_off, np.ndarray) and bg_off.size > 1


# ------------------------------------------------------------------ crosstalk
def spill_matrix(ct):
    """ct: dict ct21, ct31, ct12, ct32, ct13, ct23 -> S[i, j] = spill from channel i+1
    into channel j+1, unit diagonal."""
    S = np.eye(3)
    for i in range(3):
        for j in range(3):
            if i != j:
                S[i, j] = float(ct.get(f"ct{i + 1}{j + 1}", 0.0))
    return S


def spill(true, S):
    """measured_j = sum_i true_i * S[i, j]"""
    return [sum(true[i] * S[i, j] for i in range(3)) for j in range(3)]


def unmix(measured, S, channel):
    """true_channel from measured = S^T true by Cramer's rule (closed form, no LAPACK)."""
    A = S.T

    def det3(M):
        return (M[0][0] * (M[1][1] * M[2][2] - M[1][2] * M[2][1])
                - M[0][1] * (M[1][0] * M[2][2] - M[1][2] * M[2][0])
                + M[0][2] * (M[1][0] * M[2][1] - M[1][1] * M[2][0]))
    d = det3(A)
    k = channel - 1
    M = [[(measured[r] if c == k else A[r][c]) for c in range(3)] for r in range(3)]
    return det3(M) / d


# ------------------------------------------------------------------ volumes
def ellipsoid_volume(a, b, pix):
    """Ellipse with semi-axis a along x (axis of revolution) and b along y, in pixels."""
    return 4.0 / 3.0 * math.pi * a * b * b * pix ** 3


# ------------------------------------------------------------------ conditioning
EPS = 2.220446049250313e-16


def centred_moments(c):
    """Area and central second moments of the polygon c (n, 2), computed about the mean
    vertex in extended precision (used for conditioning estimates only).
    Returns None for polygons without area, else (A, mu20, mu02, mu11, lambda_min)."""
    c = np.asarray(c, dtype=np.longdouble)
    if c.ndim != 2 or c.shape[0] < 3:
        return None
    c = c - c.mean(axis=0)
    x, y = c[:, 0], c[:, 1]
    x1, y1 = np.roll(x, -1), np.roll(y, -1)
    d = x * y1 - x1 * y
    A = d.sum() / 2
    if A == 0:
        return None
    sg = 1 if A > 0 else -1
    A = abs(A)
    cx = sg * ((x + x1) * d).sum() / (6 * A)
    cy = sg * ((y + y1) * d).sum() / (6 * A)
    ixx = sg * ((x * x + x * x1 + x1 * x1) * d).sum() / 12
    iyy = sg * ((y * y + y * y1 + y1 * y1) * d).sum() / 12
    ixy = sg * ((x * y1 + 2 * x * y + 2 * x1 * y1 + x1 * y) * d).sum() / 24
    mu20 = float(ixx - A * cx * cx)
    mu02 = float(iyy - A * cy * cy)
    mu11 = float(ixy - A * cx * cy)
    lam = (mu20 + mu02) / 2 - math.hypot((mu20 - mu02) / 2, mu11)
    return float(A), mu20, mu02, mu11, lam


def moment_abs_error(n, rmax):
    """Bound for the absolute rounding error of a second order contour moment computed
    in float64 from n vertices with coordinates up to rmax (terms are O(rmax^4);
    calibrated on the unchanged tree: observed <= 0.03 of this)."""
    return EPS * n * float(rmax) ** 4


# ------------------------------------------------------------------ volume (defect model)
DVF = "volume-fix-orientation-reverses-r-only"


def _cones(r, z):
    """Signed volume of the truncated cones spanned by the polyline (r, z), closed."""
    r = np.asarray(r, dtype=float)
    z = np.asarray(z, dtype=float)
    if r[-1] != r[0] or z[-1] != z[0]:
        r = np.append(r, r[0])
        z = np.append(z, z[0])
    R0, R1 = r[:-1], r[1:]
    return float(np.sum(np.pi / 3 * (z[1:] - z[:-1]) * (R0 * R0 + R0 * R1 + R1 * R1)))


def needs_reversal(c, px, py, pix):
    """The orientation test documented for fix_orientation: mean step of the unwrapped
    polar angle in the (r, z) = (y, x) plane is negative."""
    x = np.asarray(c[:, 0], dtype=float) - px / pix
    y = np.asarray(c[:, 1], dtype=float) - py / pix
    ang = np.unwrap(np.arctan2(x, y))
    return bool(np.average(np.diff(ang)) < 0)


def volume_model(c, px, py, pix, reverse=False, defect=False):
    """Mean of the volumes of revolution of the upper and the lower half of the contour.
    reverse: traverse the contour backwards. defect: reverse only the radial coordinate and
    keep the axial coordinate in the original order (the DVF defect)."""
    x = np.asarray(c[:, 0], dtype=float) - px / pix
    y = np.asarray(c[:, 1], dtype=float) - py / pix
    r, z = y, x
    if reverse:
        r = r[::-1]
        if not defect:
            z = z[::-1]
    right = np.where(r < 0, 0.0, r)
    left = -np.where(r > 0, 0.0, r)
    return 0.5 * (_cones(right, z) + _cones(left[::-1], z[::-1])) * pix ** 3
