"""Value comparison helpers (numpy only)."""
import numpy as np


def arr_equal(a, b):
    """Exact equality incl. NaN positions; shapes must agree."""
    a = np.asarray(a)
    b = np.asarray(b)
    if a.shape != b.shape:
        return False
    if a.dtype.kind in "fc" or b.dtype.kind in "fc":
        return bool(np.array_equal(a, b, equal_nan=True))
    return bool(np.array_equal(a, b))


def first_diff(a, b):
    a = np.asarray(a)
    b = np.asarray(b)
    if a.shape != b.shape:
        return {"shape_a": list(a.shape), "shape_b": list(b.shape)}
    with np.errstate(invalid="ignore"):
        ne = ~((a == b) | ((a != a) & (b != b)))
    idx = np.argwhere(ne)
    if len(idx) == 0:
        return None
    i = tuple(int(x) for x in idx[0])
    return {"index": list(i), "a": repr(a[i]), "b": repr(b[i]), "n_diff": int(ne.sum())}


def feature_equal(fa, fb, feat):
    """Compare two feature objects of dclab datasets (or model data). Returns None if
    equal, else a description."""
    if feat == "trace":
        ka, kb = sorted(fa.keys()), sorted(fb.keys())
        if ka != kb:
            return {"trace_keys_a": ka, "trace_keys_b": kb}
        for k in ka:
            if not arr_equal(fa[k][:], fb[k][:]):
                return {"trace": k, "diff": first_diff(fa[k][:], fb[k][:])}
        return None
    if feat == "contour":
        if len(fa) != len(fb):
            return {"len_a": len(fa), "len_b": len(fb)}
        for i in range(len(fa)):
            if not arr_equal(fa[i], fb[i]):
                return {"contour_event": i, "diff": first_diff(fa[i], fb[i])}
        return None
    a = fa[:] if not isinstance(fa, np.ndarray) else fa
    b = fb[:] if not isinstance(fb, np.ndarray) else fb
    a, b = np.asarray(a), np.asarray(b)
    if feat == "mask":
        a, b = a.astype(bool), b.astype(bool)
    if not arr_equal(a, b):
        return first_diff(a, b)
    return None


def cfg_value_equal(a, b):
    if isinstance(a, (np.ndarray, list, tuple)) or isinstance(b, (np.ndarray, list, tuple)):
        a, b = np.asarray(a), np.asarray(b)
        if a.shape != b.shape:
            return False
        if a.dtype.kind in "fiub" and b.dtype.kind in "fiub":
            return bool(np.array_equal(a, b, equal_nan=a.dtype.kind == "f"
                                       or b.dtype.kind == "f"))
        return bool(np.all(a == b))
    if isinstance(a, float) and isinstance(b, float) and a != a and b != b:
        return True
    if isinstance(a, bool) != isinstance(b, bool) and not (
            isinstance(a, np.bool_) or isinstance(b, np.bool_)):
        return False
    return bool(a == b)


def compare_config(ca, cb, sections, ignore=()):
    diffs = []
    for sec in sections:
        da = dict(ca[sec]) if sec in ca else {}
        db = dict(cb[sec]) if sec in cb else {}
        for k in sorted(set(da) | set(db)):
            if (sec, k) in ignore:
                continue
            if k not in da or k not in db:
                diffs.append({"section": sec, "key": k,
                              "a": repr(da.get(k, "<absent>")), "b": repr(db.get(k, "<absent>"))})
            elif not cfg_value_equal(da[k], db[k]):
                diffs.append({"section": sec, "key": k, "a": repr(da[k]), "b": repr(db[k])})
    return diffs


def compare_logs(la, lb, ignore_prefix=()):
    diffs = []
    ka = sorted(k for k in la.keys() if not k.startswith(tuple(ignore_prefix)))
    kb = sorted(k for k in lb.keys() if not k.startswith(tuple(ignore_prefix)))
    if ka != kb:
        diffs.append({"log_names_a": ka, "log_names_b": kb})
    for k in set(ka) & set(kb):
        if list(la[k]) != list(lb[k]):
            diffs.append({"log": k, "a": list(la[k])[:5], "b": list(lb[k])[:5]})
    return diffs


def table_equal(ta, tb):
    a, b = np.asarray(ta[:]), np.asarray(tb[:])
    if a.size == b.size and a.shape != b.shape and a.size == max(a.shape) == max(b.shape):
        # a table written from a dict of columns is stored as (N, 1): same cells
        a, b = a.ravel(), b.ravel()
    if a.dtype.names != b.dtype.names or a.shape != b.shape:
        return {"names_a": a.dtype.names, "names_b": b.dtype.names,
                "shape_a": list(a.shape), "shape_b": list(b.shape)}
    if a.dtype.names is None:
        if not arr_equal(a, b):
            return first_diff(a, b)
        return None
    for n in a.dtype.names:
        if not arr_equal(a[n], b[n]):
            return {"column": n, "diff": first_diff(a[n], b[n])}
    return None


def compare_tables(ta, tb):
    diffs = []
    ka, kb = sorted(ta.keys()), sorted(tb.keys())
    if ka != kb:
        diffs.append({"table_names_a": ka, "table_names_b": kb})
    for k in set(ka) & set(kb):
        d = table_equal(ta[k], tb[k])
        if d:
            diffs.append({"table": k, "diff": d})
        aa = dict(getattr(ta[k], "attrs", {}))
        ab = dict(getattr(tb[k], "attrs", {}))
        if sorted(aa) != sorted(ab) or any(not cfg_value_equal(aa[x], ab[x]) for x in aa):
            diffs.append({"table_attrs": k, "a": repr(aa), "b": repr(ab)})
    return diffs


def compare_datasets(da, db, features=None, config_sections=None, ignore_cfg=()):
    """Full comparison of two dclab datasets through the public interface."""
    diffs = []
    if len(da) != len(db):
        diffs.append({"len_a": len(da), "len_b": len(db)})
    fa, fb = sorted(da.features_innate), sorted(db.features_innate)
    if features is None:
        if fa != fb:
            diffs.append({"features_a": fa, "features_b": fb})
        features = sorted(set(fa) & set(fb))
    for f in features:
        try:
            d = feature_equal(da[f], db[f], f)
        except Exception as exc:  # reading failed on one side
            d = {"exception": repr(exc)}
        if d:
            diffs.append({"feature": f, "diff": d})
    if config_sections is None:
        config_sections = sorted(set(da.config.keys()) | set(db.config.keys()))
        config_sections = [s for s in config_sections if s not in ("filtering", "calculation")]
    diffs += compare_config(da.config, db.config, config_sections, ignore_cfg)
    diffs += compare_logs(da.logs, db.logs)
    diffs += compare_tables(da.tables, db.tables)
    return diffs
