"""Reference model of an .rtdc file as a function of the recorded RTDCWriter call history.

Pure numpy. Semantics follow the writer's documentation:
* mode "append" appends features and log lines, "replace" replaces a feature / a log that is
  written again (for "trace" only the traces named in the call), "reset" starts from an empty
  file;
* `index` is always an enumeration continuing the stored index;
* features documented as uint32 / uint64 are stored with that type, masks as uint8 0/255
  (bool input), images as uint8;
* metadata values are converted to the documented type of the key.
"""
import numpy as np

UINT32 = {"fl1_max", "fl1_npeaks", "fl2_max", "fl2_npeaks", "fl3_max", "fl3_npeaks", "index",
          "ml_class", "nevents"}
UINT64 = {"frame"}
IMAGES = {"image", "image_bg", "mask", "qpi_oah", "qpi_oah_bg"}
IMAGES_F32 = {"qpi_amp", "qpi_pha"}

# documented types of the metadata keys the generator uses (C11 covers the whole table)
INT_KEYS = {"event count", "run index", "roi position x", "roi position y", "roi size x",
            "roi size y", "bit depth", "channel count", "channels installed", "laser count",
            "lasers installed", "sample rate", "samples per event", "trace median",
            "bin area min", "bin kernel", "bin threshold", "image blur", "target event count"}
BOOL_KEYS = {"no absdiff", "bg empty", "area_um soft limit"}
LCSTR_KEYS = {"chip region", "chip identifier"}
STR_KEYS = {"date", "sample", "time", "run identifier", "flash device", "medium", "identifier",
            "module composition", "software version", "channel 1 name", "channel 2 name",
            "channel 3 name"}


def conv_meta(sec, key, val):
    if sec == "user":
        return val
    if key in INT_KEYS:
        return int(val)
    if key in BOOL_KEYS:
        # documented boolean conversion: "True"/"False" (any case), numeric strings, numbers
        if isinstance(val, str):
            low = val.strip().lower()
            if low in ("true", "false"):
                return low == "true"
            return bool(float(low))
        return bool(float(val))
    if key in LCSTR_KEYS:
        return str(val).lower()
    if key in STR_KEYS:
        return str(val)
    return float(val)


class WriterModel:
    def __init__(self, version):
        self.version = version
        self.mode = None
        self.reset()

    def reset(self):
        self.feats = {}
        self.logs = {}
        self.tables = {}
        self.attrs = {}

    # --------------------------------------------------------------- sessions
    def open(self, mode):
        self.mode = mode
        if mode == "reset":
            self.reset()

    def close(self):
        """What the writer documents to do when the context is left."""
        if self.feats:
            lens = self.feature_lengths()
            first = sorted(lens)[0]
            self.attrs["experiment:event count"] = lens[first]
            if "trace" in self.feats and self.feats["trace"]:
                t0 = list(self.feats["trace"].values())[0]
                self.attrs["fluorescence:samples per event"] = int(t0.shape[1])
            chc = sum(f"fl{i}_max" in self.feats for i in (1, 2, 3))
            if chc and "fluorescence:channel count" not in self.attrs:
                self.attrs["fluorescence:channel count"] = chc
            shp = None
            if "image" in self.feats:
                shp = self.feats["image"].shape[1:]
            elif "mask" in self.feats:
                shp = self.feats["mask"].shape[1:]
            if shp is not None:
                self.attrs["imaging:roi size x"] = int(shp[1])
                self.attrs["imaging:roi size y"] = int(shp[0])
        self.brand()

    def brand(self):
        old = self.attrs.get("setup:software version", "")
        chain = [v.strip() for v in old.split("|") if v.strip()]
        cur = f"dclab {self.version}"
        if not chain or chain[-1] != cur:
            chain.append(cur)
        self.attrs["setup:software version"] = " | ".join(chain)

    # ------------------------------------------------------------------ calls
    def store_feature(self, feat, data, shape=None):
        if self.mode == "replace" and feat in self.feats:
            if feat == "trace":
                for k in data:
                    self.feats["trace"].pop(k, None)
            else:
                del self.feats[feat]
        if feat == "index":
            n0 = len(self.feats.get("index", ()))
            new = np.arange(n0 + 1, n0 + len(data) + 1).astype(np.uint32)
            self._append(feat, new)
        elif feat == "contour":
            if isinstance(data, np.ndarray) and data.ndim == 2:
                data = [data]
            self.feats.setdefault("contour", [])
            self.feats["contour"] = self.feats["contour"] + [np.asarray(c) for c in data]
        elif feat == "trace":
            tr = self.feats.setdefault("trace", {})
            for k, v in data.items():
                v = np.atleast_2d(np.asarray(v))
                tr[k] = v if k not in tr else np.concatenate([tr[k], v.astype(tr[k].dtype)])
        elif feat in IMAGES:
            if isinstance(data, (list, tuple)):
                data = np.atleast_2d(data)
            data = np.asarray(data)
            if data.ndim == 2:
                data = data[np.newaxis]
            if feat == "mask" and data.dtype == bool:
                data = data.astype(np.uint8) * 255
            self._append(feat, data.astype(np.uint8))
        elif feat in IMAGES_F32:
            if isinstance(data, (list, tuple)):
                data = np.atleast_2d(data)
            data = np.asarray(data)
            if data.ndim == 2:
                data = data[np.newaxis]
            self._append(feat, data.astype(np.float32))
        elif shape is not None:
            data = np.asarray(data)
            if tuple(shape) == data.shape:
                data = data.reshape(1, *shape)
            self._append(feat, data)
        else:
            arr = np.atleast_1d(np.asarray(data))
            if feat in UINT32:
                arr = arr.astype(np.uint32)
            elif feat in UINT64:
                arr = arr.astype(np.uint64)
            self._append(feat, arr)

    def _append(self, feat, arr):
        if feat in self.feats:
            old = self.feats[feat]
            self.feats[feat] = np.concatenate([old, arr.astype(old.dtype)])
        else:
            self.feats[feat] = arr

    def store_log(self, name, lines):
        if isinstance(lines, str):
            lines = [lines]
        if self.mode == "replace" or name not in self.logs:
            self.logs[name] = list(lines)
        else:
            self.logs[name] = self.logs[name] + list(lines)

    def store_table(self, name, rec):
        self.tables[name] = rec

    def store_metadata(self, meta):
        meta = {s: dict(kv) for s, kv in meta.items() if s != "fmt_tdms"}
        # version branding of the given (or empty) software version, as documented
        # (no version given: the chain already stored in the file is continued)
        old = meta.get("setup", {}).get("software version", "") \
            or self.attrs.get("setup:software version", "")
        chain = [v.strip() for v in old.split("|") if v.strip()]
        cur = f"dclab {self.version}"
        if not chain or chain[-1] != cur:
            chain.append(cur)
        meta.setdefault("setup", {})["software version"] = " | ".join(chain)
        for sec, kv in meta.items():
            for k, v in kv.items():
                if isinstance(v, bytes):
                    v = v.decode("utf-8")
                self.attrs[f"{sec}:{k}"] = conv_meta(sec, k, v)

    # ---------------------------------------------------------------- queries
    def feature_lengths(self):
        out = {}
        for f, v in self.feats.items():
            if f == "trace":
                if v:
                    out[f] = len(list(v.values())[0])
            else:
                out[f] = len(v)
        return out
