"""Structural/value comparison of two HDF5 (.rtdc) files with an allow-list of documented
differences. Pure h5py/numpy."""
import numpy as np

from . import dscmp

GROUPS = ("events", "logs", "tables", "basins", "basin_events")


def _strings(ds):
    out = []
    for x in ds[:]:
        if isinstance(x, bytes):
            x = x.decode("utf-8", "replace")
        out.append(str(x))
    return out


def _is_string(ds):
    return ds.dtype.kind in "OSU"


def attr_equal(a, b):
    if isinstance(a, bytes):
        a = a.decode("utf-8", "replace")
    if isinstance(b, bytes):
        b = b.decode("utf-8", "replace")
    return dscmp.cfg_value_equal(a, b)


def compare_attrs(aa, ab, where, allow_extra=(), ignore=()):
    diffs = []
    for k in aa:
        if k in ignore:
            continue
        if k not in ab:
            diffs.append({"where": where, "attr": k, "out": "<absent>", "in": repr(aa[k])})
        elif not attr_equal(aa[k], ab[k]):
            diffs.append({"where": where, "attr": k, "out": repr(ab[k]), "in": repr(aa[k])})
    for k in ab:
        if k not in aa and k not in allow_extra and k not in ignore:
            diffs.append({"where": where, "attr": k, "out": repr(ab[k]), "in": "<absent>"})
    return diffs


def compare_dataset(da, db, where, allow_extra_attrs=()):
    diffs = []
    if _is_string(da) or _is_string(db):
        if _strings(da) != _strings(db):
            diffs.append({"where": where, "strings_in": _strings(da)[:4],
                          "strings_out": _strings(db)[:4]})
    else:
        a, b = da[...], db[...]
        if a.dtype.names:
            d = dscmp.table_equal(a, b)
            if d:
                diffs.append({"where": where, "table_diff": d})
        else:
            if a.dtype != b.dtype:
                diffs.append({"where": where, "dtype_in": str(a.dtype), "dtype_out": str(b.dtype)})
            if not dscmp.arr_equal(a, b):
                diffs.append({"where": where, "value_diff": dscmp.first_diff(a, b)})
    diffs += compare_attrs(dict(da.attrs), dict(db.attrs), where, allow_extra_attrs)
    return diffs


def compare_group(ga, gb, where, skip=(), allow_missing=(), allow_extra_attrs=None):
    """Every object of ga must be in gb with equal content. Returns (diffs, extra_names)."""
    import h5py
    diffs = []
    for name in ga:
        path = f"{where}/{name}"
        if name in skip:
            continue
        if name not in gb:
            if name in allow_missing:
                continue
            diffs.append({"where": path, "missing_in_output": True})
            continue
        oa, ob = ga[name], gb[name]
        if isinstance(oa, h5py.Group):
            if not isinstance(ob, h5py.Group):
                diffs.append({"where": path, "kind": "group became dataset"})
                continue
            d, extra = compare_group(oa, ob, path, allow_extra_attrs=allow_extra_attrs)
            diffs += d
            for e in extra:
                diffs.append({"where": f"{path}/{e}", "extra_in_output": True})
        else:
            ax = allow_extra_attrs(path, oa) if allow_extra_attrs else ()
            diffs += compare_dataset(oa, ob, path, ax)
    extra = [n for n in gb if n not in ga]
    return diffs, extra
