"""C12 reference model, part 2: density estimators, contour grid and the quantile claim,
written from their definitions with numpy/scipy only.  Nothing in here imports dclab.

Estimators (events = the *valid* selected events, i.e. finite in both coordinates after the
requested scaling; evaluation points that are not finite after scaling get nan):

* histogram   2-D histogram of the events, normalised to a density, with
              max(5, Doane bin number) bins per axis (or the given bins); a bivariate cubic
              spline (scipy RectBivariateSpline) through the bin *centres*, evaluated at the
              points, negative values clipped to 0.
* gauss       scipy.stats.gaussian_kde (Scott factor, full covariance); a singular covariance
              is documented to give nan.
* multivariate  product of two Gaussian kernels with the bandwidths (Doane width / 2) per axis
              (or the given bandwidths):
              f(p) = 1/(n hx hy) sum_i phi((xi - px)/hx) phi((yi - py)/hy)

Doane rule for a sample a (finite values only, n of them, g1 = biased sample skewness
m3 / m2^1.5):  k = 1 + log2(n) + log2(1 + |g1| / s),  s = sqrt(6 (n-2) / ((n+1)(n+3))),
width = (max - min) / k, number of bins = round((max - min) / width); when the width is zero
or undefined the documented fall-back of 5 bins applies.
"""
import math

import numpy as np
from scipy.interpolate import RectBivariateSpline, interpn
from scipy.stats import gaussian_kde

TOL = 1e-8


class Undefined(Exception):
    """The reference is not defined for this input (don't-care)."""


def scale(a, how):
    a = np.asarray(a, dtype=np.float64)
    if how == "linear":
        return a
    if how == "log":
        with np.errstate(all="ignore"):
            return np.log(a)
    raise Undefined(f"unknown scale {how!r}")


def invalid(a):
    a = np.asarray(a, dtype=np.float64)
    return np.isnan(a) | np.isinf(a)


# ------------------------------------------------------------------------------ Doane rule
def skewness(v):
    n = v.size
    m = math.fsum(v.tolist()) / n
    d = v - m
    m2 = math.fsum((d * d).tolist()) / n
    m3 = math.fsum((d * d * d).tolist()) / n
    if m2 == 0:
        return float("nan")
    return m3 / m2 ** 1.5


def nearly_constant(v):
    """Range so small against the magnitude that the skewness is rounding noise."""
    if v.size == 0:
        return True
    rng_ = float(v.max() - v.min())
    mag = float(np.max(np.abs(v)))
    return rng_ <= 1e-7 * mag


def doane_width(a):
    """Doane bin width of the finite values of `a`; nan when it is not defined
    (fewer than 3 values, no spread)."""
    v = np.asarray(a, dtype=np.float64)
    v = v[~invalid(v)]
    n = v.size
    if n < 3:
        return float("nan")
    with np.errstate(all="ignore"):
        spread = float(v.max() - v.min())
        if spread == 0:
            return 0.0
        if not math.isfinite(spread):
            return float("nan")
        g1 = skewness(v)
        s = math.sqrt(6.0 * (n - 2) / ((n + 1.0) * (n + 3.0)))
        if math.isnan(g1):
            return float("nan")
        k = 1 + math.log2(n) + math.log2(1 + abs(g1) / s)
        return spread / k


def doane_bins(a):
    """max(5, Doane number of bins) with the documented fall-back."""
    v = np.asarray(a, dtype=np.float64)
    v = v[~invalid(v)]
    w = doane_width(v)
    if w == 0 or math.isnan(w):
        return 5
    num = (float(v.max()) - float(v.min())) / w
    if abs(num - math.floor(num) - 0.5) < 1e-6:
        raise Undefined("Doane bin number sits on a rounding boundary")
    return max(5, int(round(num)))


def doane_is_fragile(a):
    v = np.asarray(a, dtype=np.float64)
    v = v[~invalid(v)]
    return v.size >= 3 and v.max() != v.min() and nearly_constant(v)


# ------------------------------------------------------------------------------ estimators
def est_histogram(ex, ey, px, py, bins=None):
    if ex.size == 0:
        raise Undefined("no valid event")
    if bins is None:
        if doane_is_fragile(ex) or doane_is_fragile(ey):
            raise Undefined("nearly constant axis: the skewness is rounding noise")
        bins = (doane_bins(ex), doane_bins(ey))
    with np.errstate(all="ignore"):
        if not (np.isfinite(ex.max() - ex.min()) and np.isfinite(ey.max() - ey.min())):
            raise Undefined("range overflows")
        hist, xe, ye = np.histogram2d(ex, ey, bins=bins, density=True)
        xc = (xe[:-1] + xe[1:]) / 2
        yc = (ye[:-1] + ye[1:]) / 2
        if not (np.all(np.diff(xc) > 0) and np.all(np.diff(yc) > 0)):
            raise Undefined("bin centres not increasing (range below float resolution)")
        for e in (xe, ye):
            if float(np.min(np.diff(e))) < 1e-9 * float(np.max(np.abs(e))):
                # the bin centres themselves are only known to a few ulps
                raise Undefined("bin width near the float resolution of the axis values")
        if not np.all(np.isfinite(hist)):
            raise Undefined("histogram density not finite")
        spline = RectBivariateSpline(xc, yc, hist)
        dens = spline.ev(px, py)
    dens = np.array(dens, dtype=np.float64)
    dens[dens < 0] = 0
    est_histogram.last_peak = float(hist.max())
    return dens


est_histogram.last_peak = 0.0


def est_gauss(ex, ey, px, py):
    if ex.size < 2:
        raise Undefined("gaussian_kde needs at least two events")
    with np.errstate(all="ignore"):
        try:
            kde = gaussian_kde(np.vstack([ex, ey]))
            dens = kde.evaluate(np.vstack([px, py]))
        except np.linalg.LinAlgError:
            # documented: singular matrix -> nan
            return np.full(px.shape, np.nan)
        except ValueError as exc:
            raise Undefined(f"gaussian_kde rejects the data: {exc}")
    return np.asarray(dens, dtype=np.float64)


def est_multivariate(ex, ey, px, py, bw=None):
    n = ex.size
    if n < 3:
        raise Undefined("fewer than three events (product-kernel estimator of the library "
                        "needs more observations than variables)")
    if bw is None:
        if doane_is_fragile(ex) or doane_is_fragile(ey):
            raise Undefined("nearly constant axis: the skewness is rounding noise")
        hx, hy = doane_width(ex) / 2, doane_width(ey) / 2
    else:
        hx, hy = float(bw[0]), float(bw[1])
    if not (math.isfinite(hx) and math.isfinite(hy) and hx > 0 and hy > 0):
        raise Undefined("bandwidth zero or undefined")
    out = np.empty(px.size, dtype=np.float64)
    c = 1.0 / (2 * math.pi * hx * hy * n)
    step = max(1, int(2_000_000 // max(n, 1)))
    with np.errstate(all="ignore"):
        for lo in range(0, px.size, step):
            dx = (ex[None, :] - px[lo:lo + step, None]) / hx
            dy = (ey[None, :] - py[lo:lo + step, None]) / hy
            out[lo:lo + step] = np.exp(-0.5 * (dx * dx + dy * dy)).sum(axis=1) * c
    return out


ESTIMATORS = {"histogram": est_histogram, "gauss": est_gauss, "multivariate": est_multivariate}


class Density(np.ndarray):
    """ndarray carrying `floor`: the magnitude below which differences are rounding noise of
    the estimator (spline oscillation around zero scales with the histogram maximum)."""
    floor = 0.0


def _with_floor(a, floor):
    d = np.asarray(a, dtype=np.float64).view(Density)
    d.floor = float(floor)
    return d


def estimate(kde_type, ex, ey, px, py, kwargs=None):
    kwargs = dict(kwargs or {})
    if kde_type == "histogram":
        d = est_histogram(ex, ey, px, py, bins=kwargs.get("bins"))
        return _with_floor(d, est_histogram.last_peak)
    if kde_type == "gauss":
        return est_gauss(ex, ey, px, py)
    if kde_type == "multivariate":
        return est_multivariate(ex, ey, px, py, bw=kwargs.get("bw"))
    raise Undefined(f"no reference for kde type {kde_type!r}")


# ---------------------------------------------------------------------------- entry points
def ref_scatter(x_sel, y_sel, kde_type, xscale, yscale, positions=None, kwargs=None):
    """Reference for get_kde_scatter.  x_sel / y_sel: the selected events (unscaled).
    -> density array with the shape of the positions (or one value per selected event)."""
    xs, ys = scale(x_sel, xscale), scale(y_sel, yscale)
    bad = invalid(xs) | invalid(ys)
    ex, ey = xs[~bad], ys[~bad]
    if positions is None:
        px, py, pbad = ex, ey, bad
        shape = xs.shape
    else:
        pxs, pys = scale(positions[0], xscale), scale(positions[1], yscale)
        if pxs.shape != pys.shape:
            raise Undefined("positions of different shapes")
        pbad = invalid(pxs) | invalid(pys)
        px, py = pxs[~pbad], pys[~pbad]
        shape = pxs.shape
    out = np.full(shape, np.nan, dtype=np.float64)
    est = estimate(kde_type, ex, ey, px, py, kwargs)
    out[~pbad] = est
    return _with_floor(out, getattr(est, "floor", 0.0))


def ref_contour(x_sel, y_sel, kde_type, xscale, yscale, xacc=None, yacc=None, kwargs=None,
                max_points=250_000):
    """Reference for get_kde_contour -> (X, Y, density) on the grid
    linspace(min, max, ceil(range / accuracy)) per axis of the valid scaled events, accuracy
    defaulting to Doane width / 5; the mesh is reported on the linear scale."""
    xs, ys = scale(x_sel, xscale), scale(y_sel, yscale)
    bad = invalid(xs) | invalid(ys)
    ex, ey = xs[~bad], ys[~bad]
    if ex.size == 0:
        raise Undefined("no valid event")
    acc = []
    derived = []
    for given, col in ((xacc, xs), (yacc, ys)):
        from_rule = given is None or given == 0
        if from_rule:
            if doane_is_fragile(col):
                raise Undefined("nearly constant axis: the skewness is rounding noise")
            given = doane_width(col) / 5
        if not (math.isfinite(given) and given > 0):
            raise Undefined("contour accuracy zero or undefined")
        acc.append(float(given))
        derived.append(from_rule)
    lin = []
    for e, a, from_rule in ((ex, acc[0], derived[0]), (ey, acc[1], derived[1])):
        lo, hi = float(e.min()), float(e.max())
        if not math.isfinite(hi - lo):
            raise Undefined("range overflows")
        r = (hi - lo) / a
        if not math.isfinite(r) or r > 1e7:
            raise Undefined("grid too large for the reference budget")
        num = int(math.ceil(r))
        if num < 1:
            raise Undefined("axis without range: empty grid")
        if from_rule and abs(r - round(r)) < 1e-9 * max(1.0, r):
            # the accuracy comes from the Doane rule, whose last bit depends on how the
            # skewness is summed: range/accuracy within rounding of an integer -> not judged
            raise Undefined("grid size sits on a rounding boundary")
        lin.append(np.linspace(lo, hi, num, endpoint=True))
    if lin[0].size * lin[1].size > max_points:
        raise Undefined("grid too large for the reference budget")
    xm, ym = np.meshgrid(lin[0], lin[1], indexing="ij")
    est = estimate(kde_type, ex, ey, xm.ravel(), ym.ravel(), kwargs)
    dens = _with_floor(np.asarray(est).reshape(xm.shape), getattr(est, "floor", 0.0))
    if xscale == "log":
        xm = np.exp(xm)
    if yscale == "log":
        ym = np.exp(ym)
    return xm, ym, dens


def close_density(got, want, tol=TOL):
    """Same shape, same nan pattern, |got - want| <= tol * max(|want|, max|want|).
    -> None or a text."""
    got = np.asarray(got)
    floor = float(getattr(want, "floor", 0.0))
    want = np.asarray(want)
    if got.shape != want.shape:
        return f"shape {got.shape}, reference has {want.shape}"
    if got.size == 0:
        return None
    got = got.astype(np.float64)
    ng, nw = np.isnan(got), np.isnan(want)
    if not np.array_equal(ng, nw):
        return (f"nan pattern differs: {int(ng.sum())} nan, reference has {int(nw.sum())} "
                f"(first difference at {int(np.argmax(ng != nw))})")
    ok = ~nw
    if not ok.any():
        return None
    w, g = want[ok], got[ok]
    if not np.all(np.isfinite(w)):
        return None
    peak = max(float(np.max(np.abs(w))), floor)
    with np.errstate(all="ignore"):
        err = np.abs(g - w)
        lim = tol * np.maximum(np.abs(w), peak)
        badm = ~(err <= lim)
    if badm.any():
        i = int(np.argmax(badm))
        return (f"{int(badm.sum())} of {w.size} values differ from the reference by more than "
                f"{tol:g}: e.g. got {g[i]!r}, reference {w[i]!r} (peak {peak!r})")
    return None


def reference_is_finite(want):
    want = np.asarray(want, dtype=np.float64)
    ok = ~np.isnan(want)
    return bool(np.all(np.isfinite(want[ok])))


# --------------------------------------------------------------------------- quantile claim
def axis_1d(a, which):
    a = np.asarray(a, dtype=np.float64)
    if a.ndim == 2:
        return a[:, 0] if which == 0 else a[0, :]
    return a


def quantile_claim(density, x, y, xp, yp, q, level, normalize):
    """The level reported for quantile q must leave the fraction q of the (valid) events
    below it, to the granularity 1/n of a linearly interpolated percentile:
        mean(dp < level) <= q + 1/n   and   mean(dp <= level) >= q - 1/n
    dp = density at the events by an independent linear interpolation on the grid (0 outside).
    -> (problem | None, info)"""
    density = np.asarray(density, dtype=np.float64)
    gx, gy = axis_1d(x, 0), axis_1d(y, 1)
    if gx.size < 2 or gy.size < 2 or density.shape != (gx.size, gy.size):
        raise Undefined("grid with fewer than 2 points per axis")
    if not (np.all(np.isfinite(gx)) and np.all(np.isfinite(gy)) and np.all(np.diff(gx) > 0)
            and np.all(np.diff(gy) > 0)):
        raise Undefined("grid axes not finite and strictly increasing")
    if not np.all(np.isfinite(density)):
        raise Undefined("density with nan/inf")
    xp = np.asarray(xp, dtype=np.float64)
    yp = np.asarray(yp, dtype=np.float64)
    bad = invalid(xp) | invalid(yp)
    xv, yv = xp[~bad], yp[~bad]
    n = xv.size
    if n == 0:
        raise Undefined("no valid event")
    # Events within rounding distance of the border of the grid are ambiguous: the grid spans
    # min..max of the events, and on a log scale exp(log(v)) may move the border by an ulp, so
    # such an event is "inside" (interpolated density) or "outside" (0) depending on the last
    # bit.  Both readings are accepted: it counts as below the level only if both are.
    tx = 1e-12 * float(np.max(np.abs(gx)))
    ty = 1e-12 * float(np.max(np.abs(gy)))
    amb = ((np.abs(xv - gx[0]) <= tx) | (np.abs(xv - gx[-1]) <= tx)
           | (np.abs(yv - gy[0]) <= ty) | (np.abs(yv - gy[-1]) <= ty))
    xc = np.where(amb, np.clip(xv, gx[0], gx[-1]), xv)
    yc = np.where(amb, np.clip(yv, gy[0], gy[-1]), yv)
    dp = interpn((gx, gy), density, np.column_stack([xc, yc]), method="linear",
                 bounds_error=False, fill_value=0)
    dp_hi = np.where(amb, np.maximum(dp, 0.0), dp)
    dp_lo = np.where(amb, np.minimum(dp, 0.0), dp)
    peak = float(density.max())
    if normalize:
        if not peak > 0:
            raise Undefined("normalisation by a zero maximum")
        dp_hi, dp_lo = dp_hi / peak, dp_lo / peak
        span = 1.0
    else:
        span = max(abs(peak), float(np.max(np.abs(density))))
    eps = 1e-9 * span
    level = float(level)
    if math.isnan(level):
        return "level is nan", {"n": n}
    below = float(np.mean(dp_hi < level - eps))
    upto = float(np.mean(dp_lo <= level + eps))
    info = {"n": n, "q": float(q), "level": level, "fraction_below": below,
            "fraction_up_to": upto, "events_on_the_grid_border": int(amb.sum())}
    if below > q + 1.0 / n + 1e-12:
        return (f"fraction {below:.6g} of the {n} events lies strictly below the level "
                f"{level!r} reported for q={q:g} (more than q + 1/n)"), info
    if upto < q - 1.0 / n - 1e-12:
        return (f"only the fraction {upto:.6g} of the {n} events lies at or below the level "
                f"{level!r} reported for q={q:g} (less than q - 1/n)"), info
    return None, info


# ------------------------------------------------------------- executable defect models
M_TWO_POSITIONS = "multivariate-two-positions-transposed"
M_QUANTILE_AXIS_MAX_ZERO = "quantile-levels-axis-maximum-zero"


def predict_quantile_axis_defect(x, y):
    """Defect model: get_quantile_levels divides the grid axes and the events by the axis
    maximum; a grid whose largest x (or y) value is exactly 0 is turned into nan/-inf and the
    interpolation rejects it with ValueError.  -> exception type name or None"""
    gx, gy = axis_1d(x, 0), axis_1d(y, 1)
    if (gx.size and float(gx.max()) == 0.0) or (gy.size and float(gy.max()) == 0.0):
        return "ValueError"
    return None


def predict_two_positions_defect(ex, ey, px, py, kwargs=None):
    """Defect model: with exactly two evaluation points the (2, 2) position matrix is taken
    as two observations in rows instead of columns, i.e. the estimator is evaluated at
    (px0, px1) and (py0, py1)."""
    if px.size != 2:
        return None
    qx = np.array([px[0], py[0]], dtype=np.float64)
    qy = np.array([px[1], py[1]], dtype=np.float64)
    try:
        return est_multivariate(ex, ey, qx, qy, bw=(kwargs or {}).get("bw"))
    except Undefined:
        return None


M_UNSIGNED_WRAP = "multivariate-kde-unsigned-integer-wraparound"


def predict_unsigned_wrap_defect(x_raw, y_raw, kwargs=None):
    """Defect model: when both features are stored as unsigned integers (and no scaling or
    explicit float positions turn them into floats) the product-kernel estimator computes
    (Xi - x)**2 and its negation in unsigned arithmetic, which wraps around.
    x_raw / y_raw: the selected events in their stored dtype.  -> predicted output or None"""
    x_raw, y_raw = np.asarray(x_raw), np.asarray(y_raw)
    if x_raw.dtype.kind != "u" or y_raw.dtype.kind != "u" or x_raw.size < 3:
        return None
    bw = (kwargs or {}).get("bw")
    if bw is None:
        hx, hy = doane_width(x_raw) / 2, doane_width(y_raw) / 2
    else:
        hx, hy = float(bw[0]), float(bw[1])
    data = np.asarray([x_raw, y_raw]).T          # common unsigned dtype, as in the library
    n = data.shape[0]
    out = np.empty(n, dtype=np.float64)
    c = 1.0 / math.sqrt(2 * math.pi)
    with np.errstate(all="ignore"):
        for i in range(n):
            kx = c * np.exp(-(data[:, 0] - data[i, 0]) ** 2 / (hx ** 2 * 2.0))
            ky = c * np.exp(-(data[:, 1] - data[i, 1]) ** 2 / (hy ** 2 * 2.0))
            out[i] = (kx * ky / (hx * hy)).sum() / n
    return out
