"""Attaching monitors to the real code.

icontract is used where it applies (pure-Python classes/functions with ordinary
signatures). Where it does not (classes deriving from C types such as io.IOBase, Cython
callables) the hand-written equivalents below are used. Conditions *record* into the shard
context and never raise inside dclab.
"""
import functools
import sys
import types


def class_invariant(cls, cond, skip=()):
    """Evaluate cond(self) after every public method / property getter defined in
    cls.__dict__ (and after __init__). cond must not raise."""
    for name, attr in list(cls.__dict__.items()):
        if name in skip:
            continue
        if name.startswith("_") and name != "__init__":
            continue
        if isinstance(attr, types.FunctionType):
            setattr(cls, name, _after(attr, cond))
        elif isinstance(attr, property) and attr.fget is not None:
            setattr(cls, name, property(_after(attr.fget, cond), attr.fset, attr.fdel,
                                        attr.__doc__))
    return cls


def _after(func, cond):
    @functools.wraps(func)
    def wrapper(self, *a, **kw):
        try:
            return func(self, *a, **kw)
        finally:
            try:
                cond(self)
            except Exception:  # a monitor must never disturb the monitored code
                pass
    wrapper.__vmon_wrapped__ = func
    return wrapper


def wrap_function(module, name, make_wrapper):
    """Replace module.name by make_wrapper(orig) and rebind every other dclab module
    global that holds the identical object (`from x import f` sites).
    Returns the list of rebound sites."""
    orig = getattr(module, name)
    new = make_wrapper(orig)
    new.__vmon_wrapped__ = orig
    sites = []
    for mname, mod in list(sys.modules.items()):
        if mod is None or not (mname == "dclab" or mname.startswith("dclab.")):
            continue
        for k, v in list(vars(mod).items()):
            if v is orig:
                setattr(mod, k, new)
                sites.append(f"{mname}.{k}")
    return sites


def wrap_method(cls, name, make_wrapper):
    orig = cls.__dict__[name]
    if isinstance(orig, staticmethod):
        new = staticmethod(make_wrapper(orig.__func__))
    elif isinstance(orig, classmethod):
        new = classmethod(make_wrapper(orig.__func__))
    else:
        new = make_wrapper(orig)
    setattr(cls, name, new)
    return orig
