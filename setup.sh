#!/bin/bash
# MANIFEST.setup_cmd: offline, idempotent.
set -e
cd "$(dirname "$(readlink -f "$0")")"
mkdir -p .deps evidence replay
if [ ! -d .deps/icontract ]; then
  /venv/bin/python -m pip install --quiet --no-index --find-links /opt/veriftools/wheels \
      --target .deps icontract
fi
/venv/bin/python -m vmon.native ensure
echo "setup ok"
