#!/bin/bash
# usage: tools/sweep.sh [seed] [tier]   -> runs every claimed check, prints one line each
cd /verif
seed=${1:-0}; tier=${2:-quick}
for p in $(cat vmon/claimed.txt); do
  out=$(PYTHONHASHSEED=0 ./check $p --tier $tier --seed $seed -q 2>&1)
  echo "$out" | grep -E "^\[$p\]" | cut -c1-200
  echo "$out" | grep -E "^VIOLATION|^INCONCLUSIVE" | head -3 | cut -c1-300
done
