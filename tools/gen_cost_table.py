#!/venv/bin/python
"""Rebuild the rows of the DESIGN.md section 8 table from recorded summary lines.
usage: tools/gen_cost_table.py <file with summary lines>...   (later files win)"""
import re
import sys

pat = re.compile(r"^\[(C\d\d)\] tier=(\w+) seed=\d+ verdict=(\w+) cases=(\d+) evaluations=(\d+) "
                 r"nontrivial=(\d+) .*wall=([\d.]+)")
rows = {}
for fn in sys.argv[1:]:
    for line in open(fn):
        m = pat.match(line.strip())
        if m and m.group(3) == "held":
            pid, tier, _, c, e, n, w = m.groups()
            rows.setdefault(pid, {})[tier] = (int(c), int(e), int(n), float(w))
p = "/verif/DESIGN.md"
s = open(p).read().split("\n")
out = []
for line in s:
    m = re.match(r"^\| (C\d\d) \| (\w+) \| (.*?) \| (.*?) \|$", line)
    if m and m.group(1) in rows and " / " in m.group(3):
        pid, level, q, t = m.groups()
        r = rows[pid]
        if "quick" in r:
            c, e, n, w = r["quick"]
            q = f"{c:,} / {e:,} / {n:,} / {w:.0f} s"
        if "thorough" in r:
            c, e, n, w = r["thorough"]
            note = ""
            k = t.find(" min")
            if k >= 0 and t[k + 4:].strip():
                note = " " + t[k + 4:].strip()
            t = f"{c:,} / {e:,} / {n:,} / {w / 60:.1f} min{note}"
        line = f"| {pid} | {level} | {q} | {t} |"
    out.append(line)
open(p, "w").write("\n".join(out))
print("rows updated:", sorted(rows))
