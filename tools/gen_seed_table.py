#!/venv/bin/python
"""Regenerate the seeded-change table of DESIGN.md (between the SEEDTABLE markers) from
/verif/seeded/*/meta.json and /verif/seeded/STRENGTHENING.json."""
import glob
import json
import re

P = "/verif/DESIGN.md"
notes = json.load(open("/verif/seeded/STRENGTHENING.json"))


def short(t, n):
    t = (t or "").replace("|", "/").replace("\n", " ")
    return t[:n].rsplit(" ", 1)[0] + " …" if len(t) > n else t


lines = ["| seed | what the change is (summary by its author) | needs | reported by | "
         "strengthening it required |", "|---|---|---|---|---|"]
n = 0
for f in sorted(glob.glob("/verif/seeded/*/meta.json")):
    d = json.load(open(f))
    sid = f.split("/")[-2]
    n += 1
    lines.append(f"| {sid} | {short(d.get('summary'), 230)} | {short(d.get('needs_to_manifest'), 170)}"
                 f" | {','.join(d.get('detected_by') or [])} quick | {notes.get(sid, '')} |")
s = open(P).read()
a, b = "<!-- SEEDTABLE -->", "<!-- /SEEDTABLE -->"
if a not in s:
    # first run: wrap the existing table
    m = re.search(r"\| seed \| what the change is.*?\n\n", s, re.S)
    s = s[:m.start()] + a + "\n" + m.group(0).rstrip("\n") + "\n" + b + "\n\n" + s[m.end():]
i, j = s.index(a), s.index(b)
s = s[:i] + a + "\n" + "\n".join(lines) + "\n" + s[j:]
# per-property list of workload / monitor classes added because a seeded change was missed
c, d = "<!-- ADDEDCLASSES -->", "<!-- /ADDEDCLASSES -->"
if c in s:
    out = []
    for pid in sorted({k[:3] for k in notes}):
        items = [f"{notes[k]} ({k})" for k in sorted(notes) if k.startswith(pid) and notes[k]]
        if items:
            out.append(f"* **{pid}**: " + "; ".join(items) + ".")
    i, j = s.index(c), s.index(d)
    s = s[:i] + c + "\n" + "\n".join(out) + "\n" + s[j:]
open(P, "w").write(s)
print(n, "seeds")
