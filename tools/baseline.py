#!/venv/bin/python
"""Run the repository's pinned test command (guard off, no vmon) and compare with the
stable_pass list of /root/.vp/BASELINE.json. usage: baseline.py [-n JOBS] [pytest args]"""
import json
import subprocess
import sys
import xml.etree.ElementTree as ET

jobs = "8"
args = sys.argv[1:]
if args[:1] == ["-n"]:
    jobs = args[1]
    args = args[2:]
base = json.load(open("/root/.vp/BASELINE.json"))
xml = "/dev/shm/baseline.junit.xml"
cmd = ["/venv/bin/python", "-m", "pytest", "-q", "-p", "no:cacheprovider", "--timeout=900",
       "--continue-on-collection-errors", f"--junitxml={xml}", "-n", jobs] + args
cp = subprocess.run(cmd, cwd="/repo", capture_output=True, text=True)
print(cp.stdout.strip().splitlines()[-1])
passed = set()
other = {}
for tc in ET.parse(xml).getroot().iter("testcase"):
    name = f"{tc.get('classname')}::{tc.get('name')}"
    bad = [c.tag for c in tc if c.tag in ("failure", "error", "skipped")]
    if bad:
        other[name] = bad[0]
    else:
        passed.add(name)
stable = set(base["stable_pass"])
if args:
    stable = {s for s in stable if s in passed or s in other}
missing = sorted(stable - passed)
print(f"stable_pass={len(stable)} passed_now={len(stable & passed)} regressions={len(missing)}")
for m in missing[:40]:
    print("  REGRESSION", m, other.get(m, "not run"))
sys.exit(1 if missing else 0)
