#!/bin/bash
find /verif/replay -type f -name "*.json" -delete
