#!/venv/bin/python
"""Sensitivity helper: copy /repo/dclab (+CHANGELOG) to a scratch dir on /dev/shm, apply
an edit (python-style replace or a patch file), run a check against it via VERIF_REPO and
remove the copy.

usage: mutcheck.py <PROP> <file> <old> <new> [--tier quick] [--count N]
       mutcheck.py <PROP> --patch <patch.diff>
Exit status: that of the check (1 = detected).
"""
import argparse
import os
import pathlib
import shutil
import subprocess
import sys
import tempfile

ap = argparse.ArgumentParser()
ap.add_argument("prop")
ap.add_argument("file", nargs="?")
ap.add_argument("old", nargs="?")
ap.add_argument("new", nargs="?")
ap.add_argument("--patch")
ap.add_argument("--tier", default="quick")
ap.add_argument("--seed", default="0")
ap.add_argument("--keep", action="store_true")
a = ap.parse_args()

dst = pathlib.Path(tempfile.mkdtemp(prefix="mut-", dir="/dev/shm"))
try:
    shutil.copytree("/repo/dclab", dst / "dclab",
                    ignore=shutil.ignore_patterns("__pycache__", "*.c"))
    shutil.copy("/repo/CHANGELOG", dst / "CHANGELOG")
    if a.patch:
        subprocess.run(["patch", "-p1", "-s", "-d", str(dst), "-i",
                        os.path.abspath(a.patch)], check=True)
    else:
        p = dst / a.file
        s = p.read_text()
        old = a.old.encode().decode("unicode_escape")
        new = a.new.encode().decode("unicode_escape")
        if s.count(old) != 1:
            sys.exit(f"pattern occurs {s.count(old)} times in {a.file}")
        p.write_text(s.replace(old, new))
    env = dict(os.environ, VERIF_REPO=str(dst), VERIF_OUT_DIR=str(dst / "out"))
    cp = subprocess.run(["/verif/check", a.prop, "--tier", a.tier, "--seed", a.seed, "-q"],
                        env=env, capture_output=True, text=True)
    out = cp.stdout.strip().splitlines()
    nv = sum(1 for l in out if l.startswith("VIOLATION"))
    print(f"exit={cp.returncode} violations_lines={nv}")
    for l in out:
        if not l.startswith("VIOLATION") or nv <= 3:
            print("  ", l[:300])
    if nv > 3:
        print("  ", [l for l in out if l.startswith("VIOLATION")][0])
    if cp.returncode not in (0, 1):
        print(cp.stderr[-1500:])
    sys.exit(cp.returncode)
finally:
    if not a.keep:
        shutil.rmtree(dst, ignore_errors=True)
