#!/venv/bin/python
"""Confirm an independently written property-breaking change and run checks against it.

usage: seedcheck.py <ID> <src-dir with patch.diff, demo, meta.json> <PROP> [<PROP> ...] [--tier quick]
* copies the artefacts to /verif/seeded/<ID>/
* builds two scratch copies of /repo under /dev/shm (unchanged / patched), runs the demo in both
  (must pass unchanged, fail patched), then runs `./check PROP` against the patched copy
* writes the outcome into /verif/seeded/<ID>/meta.json ("confirmed", "detected_by") and removes the copies
"""
import json, os, pathlib, shutil, subprocess, sys, tempfile

args = sys.argv[1:]
tier = "quick"
if "--tier" in args:
    i = args.index("--tier"); tier = args[i + 1]; del args[i:i + 2]
sid, src, props = args[0], pathlib.Path(args[1]), args[2:]
dst = pathlib.Path("/verif/seeded") / sid
dst.mkdir(parents=True, exist_ok=True)
for f in src.iterdir():
    if f.is_file():
        shutil.copy(f, dst / f.name)
demo = next((p for p in dst.iterdir() if p.name.startswith(("demo", "test_demo")) and p.suffix == ".py"), None)
meta = json.load(open(dst / "meta.json")) if (dst / "meta.json").exists() else {}

def mkcopy(patched):
    d = pathlib.Path(tempfile.mkdtemp(prefix="seedchk-", dir="/dev/shm"))
    shutil.copytree("/repo/dclab", d / "dclab", ignore=shutil.ignore_patterns("__pycache__", "*.c"))
    shutil.copy("/repo/CHANGELOG", d / "CHANGELOG")
    shutil.copytree("/repo/tests", d / "tests", ignore=shutil.ignore_patterns("__pycache__"))
    shutil.copytree("/repo/examples", d / "examples", ignore=shutil.ignore_patterns("__pycache__"))
    if patched:
        subprocess.run(["patch", "-p1", "-s", "-d", str(d), "-i", str(dst / "patch.diff")], check=True)
    return d

def run_demo(d):
    env = dict(os.environ, PYTHONPATH=f"{d}:/tmp/seedtools", DCLAB_ROOT=str(d))
    if demo.name.startswith("test_"):
        cmd = ["/venv/bin/python", "-m", "pytest", "-q", "-p", "no:cacheprovider", str(demo)]
    else:
        cmd = ["/venv/bin/python", str(demo)]
    cp = subprocess.run(cmd, cwd=d, env=env, capture_output=True, text=True, timeout=900)
    return cp.returncode, (cp.stdout + cp.stderr)[-400:]

clean, patched = mkcopy(False), mkcopy(True)
try:
    rc0, out0 = run_demo(clean)
    rc1, out1 = run_demo(patched)
    confirmed = rc0 == 0 and rc1 != 0
    print(f"demo on unchanged tree: exit {rc0}; on patched tree: exit {rc1}  -> confirmed={confirmed}")
    if not confirmed:
        print(out0, "\n---\n", out1)
    detected = {}
    for p in props:
        env = dict(os.environ, VERIF_REPO=str(patched), VERIF_OUT_DIR=str(patched / "out"))
        cp = subprocess.run(["/verif/check", p, "--tier", tier, "-q"], env=env, capture_output=True, text=True)
        last = [l for l in cp.stdout.splitlines() if l.startswith(f"[{p}]")]
        nviol = sum(1 for l in cp.stdout.splitlines() if l.startswith("VIOLATION"))
        detected[p] = {"exit": cp.returncode, "violation_lines": nviol, "summary": last[-1][:300] if last else ""}
        print(p, detected[p])
    meta.update({"confirmed_by_integrator": confirmed,
                 "demo_exit_unchanged": rc0, "demo_exit_patched": rc1,
                 "checks_run": {p: {"tier": tier, **v} for p, v in detected.items()},
                 "detected_by": [p for p, v in detected.items() if v["exit"] == 1]})
    json.dump(meta, open(dst / "meta.json", "w"), indent=1)
finally:
    shutil.rmtree(clean, ignore_errors=True)
    shutil.rmtree(patched, ignore_errors=True)
