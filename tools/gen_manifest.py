#!/venv/bin/python
"""Regenerate /verif/MANIFEST.json from the driver modules (vmon/work/cXX.py)."""
import importlib
import json
import pathlib
import sys

VERIF = pathlib.Path(__file__).resolve().parent.parent
sys.path.insert(0, str(VERIF))

props = [json.loads(l)["id"] for l in open(VERIF / "properties.jsonl")]
# properties whose check is built, validated on the unchanged tree and claimed
CLAIMED = (VERIF / "vmon" / "claimed.txt").read_text().split()
checks, na = [], []
for pid in props:
    modfile = VERIF / "vmon" / "work" / f"{pid.lower()}.py"
    if not modfile.exists() or pid not in CLAIMED:
        na.append({"property_id": pid, "reason": "check not built yet (runtime monitoring "
                   "applies, see DESIGN.md section 4); no claim is made"})
        continue
    drv = importlib.import_module(f"vmon.work.{pid.lower()}")
    if getattr(drv, "NOT_CLAIMED", None):
        na.append({"property_id": pid, "reason": drv.NOT_CLAIMED})
        continue
    checks.append({
        "property_id": pid,
        "quick_cmd": f"./check {pid} --tier quick",
        "thorough_cmd": f"./check {pid} --tier thorough",
        "evidence_file": f"/verif/evidence/{pid}.json",
        "replay_cmd_template": f"./check {pid} --replay {{path}}",
        "engine": "vmon",
        "level_claimed": {"category": drv.LEVEL, "text": drv.LEVEL_TEXT,
                          "design_ref": f"DESIGN.md section 4, {pid}"},
        "level_note": drv.LEVEL_NOTE,
        "technique": drv.TECHNIQUE,
    })
man = {
    "version": 1,
    "setup_cmd": "./setup.sh",
    "hooks": {
        "guard": "DCLAB_VERIF",
        "enable": "no hooks in /repo are needed: monitors are attached from /verif at run time "
                  "(contracts and recording wrappers patched onto dclab's classes/functions, "
                  "fault injection into h5py/pathlib); the guard name is reserved",
        "baseline_off_cmd": "cd /repo && /venv/bin/python -m pytest -ra -q -p no:cacheprovider "
                            "--timeout=900 --continue-on-collection-errors",
        "source_commits": [],
        "add_only": True,
    },
    "engines": [{
        "name": "vmon", "path": "/verif/vmon",
        "serves_properties": [c["property_id"] for c in checks],
        "kind_free_text": "runtime monitoring: contracts / recording wrappers on the real "
                          "dclab code, reference models and trace checkers as oracles, seeded "
                          "hostile workload generators, subprocess shards with watchdogs",
    }],
    "checks": checks,
    "not_applicable": na,
    "notes": "Verdicts are three-valued: exit 0 held on what was observed, exit 1 with "
             "VIOLATION lines, exit 2 INCONCLUSIVE (watchdog, crashed shard, deciding monitor "
             "not reached). Known findings are in /verif/known_findings.json.",
}
(VERIF / "MANIFEST.json").write_text(json.dumps(man, indent=1) + "\n")
print(f"{len(checks)} checks, {len(na)} not claimed")
